//! Logging facade named `snow` (see Cargo.toml).  No protocol knowledge: it forwards every call to the
//! real crate and records arguments, result and the state the API exposes, as NDJSON events in the
//! format of harness/src/trace.rs, one file per test thread under $VERIF_TRACE_DIR.
pub use snow_real::{error, params, resolvers, types, Error, Keypair};
use snow_real::params::NoiseParams;
use snow_real::resolvers::BoxedCryptoResolver;

use serde_json::{json, Value};
use std::cell::RefCell;
use std::collections::HashMap;

struct Recorder {
    vids: HashMap<Vec<u8>, usize>,
    keys: Vec<Value>,
    events: Vec<Value>,
    next_ep: usize,
    names: Option<HashMap<String, Value>>,
}

impl Recorder {
    fn new() -> Self {
        Recorder { vids: HashMap::new(), keys: vec![], events: vec![], next_ep: 0, names: None }
    }
    fn id(&mut self, b: &[u8]) -> String {
        let n = self.vids.len();
        format!("v{}", *self.vids.entry(b.to_vec()).or_insert(n))
    }
    fn class_of(&mut self, name: &str) -> Option<Value> {
        if self.names.is_none() {
            let mut m = HashMap::new();
            if let Ok(p) = std::env::var("VERIF_NAMES") {
                if let Ok(txt) = std::fs::read_to_string(p) {
                    for line in txt.lines() {
                        if let Some(rest) = line.strip_prefix("<<\"NAME\", ") {
                            if let Some(inner) = rest.strip_suffix(">>") {
                                if let Ok(s) = serde_json::from_str::<String>(inner) {
                                    if let Ok(v) = serde_json::from_str::<Value>(&s) {
                                        m.insert(v["name"].as_str().unwrap_or("").to_string(), v);
                                    }
                                }
                            }
                        }
                    }
                }
            }
            self.names = Some(m);
        }
        self.names.as_ref().unwrap().get(name).cloned()
    }
}

impl Drop for Recorder {
    fn drop(&mut self) {
        if self.events.is_empty() {
            return;
        }
        if let Ok(dir) = std::env::var("VERIF_TRACE_DIR") {
            let name = std::thread::current().name().unwrap_or("unnamed").replace("::", "_");
            let mut out = String::new();
            out.push_str(&json!({"ev": "session", "idx": 0, "name": name, "pat": "NN", "psks": [], "publen": 32, "initpad": false,
                                 "profile": "repo-tests"}).to_string());
            out.push('\n');
            // the relation between a private key and its public key is timeless: key events first
            for k in &self.keys {
                out.push_str(&k.to_string());
                out.push('\n');
            }
            for e in &self.events {
                out.push_str(&e.to_string());
                out.push('\n');
            }
            let _ = std::fs::write(format!("{dir}/{name}.ndjson"), out);
        }
    }
}

thread_local! { static REC: RefCell<Recorder> = RefCell::new(Recorder::new()); }

fn rec<T>(f: impl FnOnce(&mut Recorder) -> T) -> T {
    REC.with(|r| f(&mut r.borrow_mut()))
}

fn limbs(n: u64) -> Value {
    json!([(n >> 48) & 0xffff, (n >> 32) & 0xffff, (n >> 16) & 0xffff, n & 0xffff])
}

fn res_str<T>(r: &Result<T, Error>) -> String {
    match r {
        Ok(_) => "ok".into(),
        Err(e) => format!("{:?}", e),
    }
}

fn dh_pub(p256: bool, sk: &[u8]) -> Option<Vec<u8>> {
    if p256 {
        use p256::elliptic_curve::sec1::ToEncodedPoint;
        let k = p256::SecretKey::from_slice(sk).ok()?;
        Some(k.public_key().to_encoded_point(false).as_bytes().to_vec())
    } else {
        let k: [u8; 32] = sk.try_into().ok()?;
        Some(x25519_dalek::x25519(k, x25519_dalek::X25519_BASEPOINT_BYTES).to_vec())
    }
}

// --------------------------------------------------------------------------------------------- Builder
pub struct Builder<'builder> {
    inner: snow_real::Builder<'builder>,
    name: String,
    s: Option<Vec<u8>>,
    rs: Option<Vec<u8>>,
    e_fixed: Option<Vec<u8>>,
    psks: [Option<Vec<u8>>; 10],
    plog: Option<Vec<u8>>,
}

impl core::fmt::Debug for Builder<'_> {
    fn fmt(&self, f: &mut core::fmt::Formatter<'_>) -> core::fmt::Result {
        self.inner.fmt(f)
    }
}

impl<'builder> Builder<'builder> {
    fn wrap(inner: snow_real::Builder<'builder>, name: String) -> Self {
        Builder { inner, name, s: None, rs: None, e_fixed: None, psks: Default::default(), plog: None }
    }
    #[must_use]
    pub fn new(params: NoiseParams) -> Self {
        let name = params.name.clone();
        Self::wrap(snow_real::Builder::new(params), name)
    }
    #[must_use]
    pub fn with_resolver(params: NoiseParams, resolver: BoxedCryptoResolver) -> Self {
        let name = params.name.clone();
        Self::wrap(snow_real::Builder::with_resolver(params, resolver), name)
    }
    pub fn psk(mut self, location: u8, key: &'builder [u8; 32]) -> Result<Self, Error> {
        let i = self.inner.psk(location, key)?;
        self.inner = i;
        if usize::from(location) < 10 {
            self.psks[usize::from(location)] = Some(key.to_vec());
        }
        Ok(self)
    }
    pub fn local_private_key(mut self, key: &'builder [u8]) -> Result<Self, Error> {
        self.inner = self.inner.local_private_key(key)?;
        self.s = Some(key.to_vec());
        Ok(self)
    }
    #[doc(hidden)]
    #[must_use]
    pub fn fixed_ephemeral_key_for_testing_only(mut self, key: &'builder [u8]) -> Self {
        self.inner = self.inner.fixed_ephemeral_key_for_testing_only(key);
        self.e_fixed = Some(key.to_vec());
        self
    }
    pub fn prologue(mut self, key: &'builder [u8]) -> Result<Self, Error> {
        self.inner = self.inner.prologue(key)?;
        self.plog = Some(key.to_vec());
        Ok(self)
    }
    pub fn remote_public_key(mut self, pub_key: &'builder [u8]) -> Result<Self, Error> {
        self.inner = self.inner.remote_public_key(pub_key)?;
        self.rs = Some(pub_key.to_vec());
        Ok(self)
    }
    pub fn generate_keypair(&self) -> Result<Keypair, Error> {
        self.inner.generate_keypair()
    }
    pub fn build_initiator(self) -> Result<HandshakeState, Error> {
        self.build(true)
    }
    pub fn build_responder(self) -> Result<HandshakeState, Error> {
        self.build(false)
    }
    fn build(self, initiator: bool) -> Result<HandshakeState, Error> {
        let Builder { inner, name, s, rs, e_fixed, psks, plog } = self;
        let r = if initiator { inner.build_initiator() } else { inner.build_responder() };
        let class = rec(|rc| rc.class_of(&name));
        let ep = rec(|rc| {
            rc.next_ep += 1;
            format!("e{}", rc.next_ep)
        });
        let tracked = class.is_some() && s.as_ref().map(|k| k.len() == 32).unwrap_or(true);
        if tracked {
            let class = class.unwrap();
            let p256 = class["dh"].as_str() == Some("P256");
            rec(|rc| {
                for k in [&s, &e_fixed].into_iter().flatten() {
                    if let Some(pk) = dh_pub(p256, k) {
                        let (a, b) = (rc.id(k), rc.id(&pk));
                        rc.keys.push(json!({"ev": "key", "priv": a, "pub": b, "consistent": true}));
                    }
                }
                let mut pskv = serde_json::Map::new();
                for n in 0..5 {
                    let v = psks[n].as_ref().map(|k| rc.id(k)).unwrap_or_default();
                    pskv.insert(n.to_string(), json!(v));
                }
                let sid = s.as_ref().map(|k| rc.id(k)).unwrap_or_default();
                let rsid = rs.as_ref().map(|k| rc.id(k)).unwrap_or_default();
                let eid = e_fixed.as_ref().map(|k| rc.id(k)).unwrap_or_default();
                let pid = rc.id(plog.as_deref().unwrap_or(&[]));
                let obs = match &r {
                    Ok(h) => {
                        let (hh, rso) = (rc.id(h.get_handshake_hash()), h.get_remote_static().map(|x| rc.id(x)).unwrap_or_default());
                        json!({"turn": h.is_my_turn(), "fin": h.is_handshake_finished(), "hh": hh, "rso": rso, "enc": h.was_write_payload_encrypted()})
                    },
                    Err(_) => json!({}),
                };
                rc.events.push(json!({"ev": "build", "ep": ep, "role": if initiator { "i" } else { "r" }, "s": sid, "rs": rsid,
                    "fixed_e": eid, "psk": pskv, "prologue": pid, "res": res_str(&r), "obs": obs,
                    "class": {"pat": class["pat"], "psks": class["psks"], "publen": class["publen"], "initpad": class["initpad"]}}));
            });
        }
        r.map(|inner| HandshakeState { inner, ep, tracked })
    }
}

// -------------------------------------------------------------------------------------- HandshakeState
pub struct HandshakeState {
    inner: snow_real::HandshakeState,
    ep: String,
    tracked: bool,
}

impl core::fmt::Debug for HandshakeState {
    fn fmt(&self, f: &mut core::fmt::Formatter<'_>) -> core::fmt::Result {
        self.inner.fmt(f)
    }
}

impl HandshakeState {
    fn obs(&self, rc: &mut Recorder) -> Value {
        let h = &self.inner;
        let (hh, rso) = (rc.id(h.get_handshake_hash()), h.get_remote_static().map(|x| rc.id(x)).unwrap_or_default());
        json!({"turn": h.is_my_turn(), "fin": h.is_handshake_finished(), "hh": hh, "rso": rso, "enc": h.was_write_payload_encrypted()})
    }
    #[must_use]
    pub fn was_write_payload_encrypted(&self) -> bool {
        self.inner.was_write_payload_encrypted()
    }
    pub fn write_message(&mut self, payload: &[u8], message: &mut [u8]) -> Result<usize, Error> {
        let r = self.inner.write_message(payload, message);
        if self.tracked {
            rec(|rc| {
                let n = *r.as_ref().unwrap_or(&0);
                let (pid, oid) = (rc.id(payload), if r.is_ok() { rc.id(&message[..n.min(message.len())]) } else { String::new() });
                let obs = self.obs(rc);
                rc.events.push(json!({"ev": "hs_write", "ep": self.ep, "payload": pid, "plen": payload.len(), "buf": message.len(),
                    "res": res_str(&r), "len": n, "out": oid, "draws": 99, "obs": obs}));
            });
        }
        r
    }
    pub fn read_message(&mut self, message: &[u8], payload: &mut [u8]) -> Result<usize, Error> {
        let r = self.inner.read_message(message, payload);
        if self.tracked {
            rec(|rc| {
                let n = *r.as_ref().unwrap_or(&0);
                let (mid, pid) = (rc.id(message), if r.is_ok() { rc.id(&payload[..n.min(payload.len())]) } else { String::new() });
                let obs = self.obs(rc);
                rc.events.push(json!({"ev": "hs_read", "ep": self.ep, "msg": mid, "mlen": message.len(), "outlen": payload.len(),
                    "res": res_str(&r), "len": n, "payload": pid, "obs": obs}));
            });
        }
        r
    }
    pub fn set_psk(&mut self, location: usize, key: &[u8]) -> Result<(), Error> {
        let r = self.inner.set_psk(location, key);
        if self.tracked {
            rec(|rc| {
                let kid = rc.id(key);
                let obs = self.obs(rc);
                rc.events.push(json!({"ev": "set_psk", "ep": self.ep, "loc": location, "key": kid, "klen": key.len(), "res": res_str(&r), "obs": obs}));
            });
        }
        r
    }
    #[must_use]
    pub fn get_remote_static(&self) -> Option<&[u8]> {
        self.inner.get_remote_static()
    }
    #[must_use]
    pub fn get_handshake_hash(&self) -> &[u8] {
        self.inner.get_handshake_hash()
    }
    #[must_use]
    pub fn is_initiator(&self) -> bool {
        self.inner.is_initiator()
    }
    #[must_use]
    pub fn is_handshake_finished(&self) -> bool {
        self.inner.is_handshake_finished()
    }
    #[must_use]
    pub fn is_my_turn(&self) -> bool {
        self.inner.is_my_turn()
    }
    pub fn dangerously_get_raw_split(&mut self) -> ([u8; 32], [u8; 32]) {
        self.inner.dangerously_get_raw_split()
    }
    pub fn into_transport_mode(self) -> Result<TransportState, Error> {
        let HandshakeState { inner, ep, tracked } = self;
        let r = inner.into_transport_mode();
        let t = r.map(|inner| TransportState { inner, ep: ep.clone(), tracked });
        if tracked {
            rec(|rc| {
                let obs = t.as_ref().map(|t| t.obs(rc)).unwrap_or(json!({}));
                rc.events.push(json!({"ev": "to_transport", "ep": ep, "res": res_str(&t), "obs": obs}));
            });
        }
        t
    }
    pub fn into_stateless_transport_mode(self) -> Result<StatelessTransportState, Error> {
        let HandshakeState { inner, ep, tracked } = self;
        let r = inner.into_stateless_transport_mode();
        let t = r.map(|inner| StatelessTransportState { inner, ep: ep.clone(), tracked });
        if tracked {
            rec(|rc| {
                let obs = t.as_ref().map(|t| t.obs(rc)).unwrap_or(json!({}));
                rc.events.push(json!({"ev": "to_stateless", "ep": ep, "res": res_str(&t), "obs": obs}));
            });
        }
        t
    }
}

// -------------------------------------------------------------------------------------- TransportState
pub struct TransportState {
    inner: snow_real::TransportState,
    ep: String,
    tracked: bool,
}
impl core::fmt::Debug for TransportState {
    fn fmt(&self, f: &mut core::fmt::Formatter<'_>) -> core::fmt::Result {
        self.inner.fmt(f)
    }
}
impl TransportState {
    fn obs(&self, rc: &mut Recorder) -> Value {
        let rso = self.inner.get_remote_static().map(|x| rc.id(x)).unwrap_or_default();
        json!({"sn": limbs(self.inner.sending_nonce()), "rn": limbs(self.inner.receiving_nonce()), "rso": rso, "stateful": true})
    }
    fn simple(&self, ev: &str, extra: Value) {
        if self.tracked {
            rec(|rc| {
                let obs = self.obs(rc);
                let mut e = json!({"ev": ev, "ep": self.ep, "res": "ok", "obs": obs});
                if let Some(m) = extra.as_object() {
                    for (k, v) in m {
                        e[k] = v.clone();
                    }
                }
                rc.events.push(e);
            });
        }
    }
    #[must_use]
    pub fn get_remote_static(&self) -> Option<&[u8]> {
        self.inner.get_remote_static()
    }
    pub fn write_message(&mut self, payload: &[u8], message: &mut [u8]) -> Result<usize, Error> {
        let r = self.inner.write_message(payload, message);
        if self.tracked {
            rec(|rc| {
                let n = *r.as_ref().unwrap_or(&0);
                let (pid, oid) = (rc.id(payload), if r.is_ok() { rc.id(&message[..n.min(message.len())]) } else { String::new() });
                let obs = self.obs(rc);
                rc.events.push(json!({"ev": "t_write", "ep": self.ep, "payload": pid, "plen": payload.len(), "buf": message.len(),
                    "res": res_str(&r), "len": n, "out": oid, "obs": obs}));
            });
        }
        r
    }
    pub fn read_message(&mut self, message: &[u8], payload: &mut [u8]) -> Result<usize, Error> {
        let r = self.inner.read_message(message, payload);
        if self.tracked {
            rec(|rc| {
                let n = *r.as_ref().unwrap_or(&0);
                let (mid, pid) = (rc.id(message), if r.is_ok() { rc.id(&payload[..n.min(payload.len())]) } else { String::new() });
                let obs = self.obs(rc);
                rc.events.push(json!({"ev": "t_read", "ep": self.ep, "msg": mid, "mlen": message.len(), "outlen": payload.len(),
                    "res": res_str(&r), "len": n, "payload": pid, "obs": obs}));
            });
        }
        r
    }
    pub fn rekey_outgoing(&mut self) {
        self.inner.rekey_outgoing();
        self.simple("rekey_out", json!({}));
    }
    pub fn rekey_incoming(&mut self) {
        self.inner.rekey_incoming();
        self.simple("rekey_in", json!({}));
    }
    pub fn rekey_manually(&mut self, initiator: Option<&[u8; 32]>, responder: Option<&[u8; 32]>) {
        self.inner.rekey_manually(initiator, responder);
        let (a, b) = rec(|rc| (initiator.map(|k| rc.id(k)).unwrap_or_default(), responder.map(|k| rc.id(k)).unwrap_or_default()));
        self.simple("rekey_manual", json!({"k1": a, "k2": b}));
    }
    pub fn rekey_initiator_manually(&mut self, key: &[u8; 32]) {
        self.inner.rekey_initiator_manually(key);
        let a = rec(|rc| rc.id(key));
        self.simple("rekey_manual", json!({"k1": a, "k2": ""}));
    }
    pub fn rekey_responder_manually(&mut self, key: &[u8; 32]) {
        self.inner.rekey_responder_manually(key);
        let a = rec(|rc| rc.id(key));
        self.simple("rekey_manual", json!({"k1": "", "k2": a}));
    }
    pub fn set_receiving_nonce(&mut self, nonce: u64) {
        self.inner.set_receiving_nonce(nonce);
        self.simple("set_recv_nonce", json!({"n": limbs(nonce)}));
    }
    #[must_use]
    pub fn receiving_nonce(&self) -> u64 {
        self.inner.receiving_nonce()
    }
    #[must_use]
    pub fn sending_nonce(&self) -> u64 {
        self.inner.sending_nonce()
    }
    #[must_use]
    pub fn is_initiator(&self) -> bool {
        self.inner.is_initiator()
    }
}

// ------------------------------------------------------------------------------ StatelessTransportState
pub struct StatelessTransportState {
    inner: snow_real::StatelessTransportState,
    ep: String,
    tracked: bool,
}
impl core::fmt::Debug for StatelessTransportState {
    fn fmt(&self, f: &mut core::fmt::Formatter<'_>) -> core::fmt::Result {
        self.inner.fmt(f)
    }
}
impl StatelessTransportState {
    fn obs(&self, rc: &mut Recorder) -> Value {
        let rso = self.inner.get_remote_static().map(|x| rc.id(x)).unwrap_or_default();
        json!({"rso": rso, "stateful": false})
    }
    #[must_use]
    pub fn get_remote_static(&self) -> Option<&[u8]> {
        self.inner.get_remote_static()
    }
    pub fn write_message(&self, nonce: u64, payload: &[u8], message: &mut [u8]) -> Result<usize, Error> {
        let r = self.inner.write_message(nonce, payload, message);
        if self.tracked {
            rec(|rc| {
                let n = *r.as_ref().unwrap_or(&0);
                let (pid, oid) = (rc.id(payload), if r.is_ok() { rc.id(&message[..n.min(message.len())]) } else { String::new() });
                let obs = self.obs(rc);
                rc.events.push(json!({"ev": "s_write", "ep": self.ep, "n": limbs(nonce), "payload": pid, "plen": payload.len(),
                    "buf": message.len(), "res": res_str(&r), "len": n, "out": oid, "obs": obs}));
            });
        }
        r
    }
    pub fn read_message(&self, nonce: u64, payload: &[u8], message: &mut [u8]) -> Result<usize, Error> {
        let r = self.inner.read_message(nonce, payload, message);
        if self.tracked {
            rec(|rc| {
                let n = *r.as_ref().unwrap_or(&0);
                let (mid, pid) = (rc.id(payload), if r.is_ok() { rc.id(&message[..n.min(message.len())]) } else { String::new() });
                let obs = self.obs(rc);
                rc.events.push(json!({"ev": "s_read", "ep": self.ep, "n": limbs(nonce), "msg": mid, "mlen": payload.len(),
                    "outlen": message.len(), "res": res_str(&r), "len": n, "payload": pid, "obs": obs}));
            });
        }
        r
    }
    pub fn rekey_outgoing(&mut self) {
        self.inner.rekey_outgoing();
        if self.tracked {
            rec(|rc| {
                let obs = self.obs(rc);
                rc.events.push(json!({"ev": "rekey_out", "ep": self.ep, "res": "ok", "obs": obs}));
            });
        }
    }
    pub fn rekey_incoming(&mut self) {
        self.inner.rekey_incoming();
        if self.tracked {
            rec(|rc| {
                let obs = self.obs(rc);
                rc.events.push(json!({"ev": "rekey_in", "ep": self.ep, "res": "ok", "obs": obs}));
            });
        }
    }
    pub fn rekey_manually(&mut self, initiator: Option<&[u8; 32]>, responder: Option<&[u8; 32]>) {
        self.inner.rekey_manually(initiator, responder);
        if self.tracked {
            rec(|rc| {
                let (a, b) = (initiator.map(|k| rc.id(k)).unwrap_or_default(), responder.map(|k| rc.id(k)).unwrap_or_default());
                let obs = self.obs(rc);
                rc.events.push(json!({"ev": "rekey_manual", "ep": self.ep, "k1": a, "k2": b, "res": "ok", "obs": obs}));
            });
        }
    }
    pub fn rekey_initiator_manually(&mut self, key: &[u8; 32]) {
        self.inner.rekey_initiator_manually(key);
        if self.tracked {
            rec(|rc| {
                let a = rc.id(key);
                let obs = self.obs(rc);
                rc.events.push(json!({"ev": "rekey_manual", "ep": self.ep, "k1": a, "k2": "", "res": "ok", "obs": obs}));
            });
        }
    }
    pub fn rekey_responder_manually(&mut self, key: &[u8; 32]) {
        self.inner.rekey_responder_manually(key);
        if self.tracked {
            rec(|rc| {
                let a = rc.id(key);
                let obs = self.obs(rc);
                rc.events.push(json!({"ev": "rekey_manual", "ep": self.ep, "k1": "", "k2": a, "res": "ok", "obs": obs}));
            });
        }
    }
    #[must_use]
    pub fn is_initiator(&self) -> bool {
        self.inner.is_initiator()
    }
}
