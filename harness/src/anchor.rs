//! Anchor: before any snow run is judged, the transcript the SPECIFICATION predicts for each
//! Cacophony vector (independent Haskell implementation; tests/vectors/cacophony.txt) is
//! evaluated with the vector's keys and must equal the vector's ciphertexts and handshake
//! hash byte for byte.  snow is not involved.  A failure is a tool error (exit 2).

use crate::eval::{Arena, Bindings, Evaluator, PrimSet};
use crate::prims::{CipherAlg, DhAlg, HashAlg};
use crate::util::{read_tlc_json, Opts};
use serde_json::Value;
use std::collections::HashMap;

fn class_key(pp: &Value) -> String {
    format!("{}|{}|{}|{}", pp["pat"].as_str().unwrap_or(""), pp["psks"], pp["publen"], pp["initpad"])
}

pub fn main(o: &Opts) -> Result<i32, String> {
    crate::prims::self_check()?;
    let scns = read_tlc_json(o.req("scn")?, "SCN")?;
    let names = read_tlc_json(o.req("names")?, "NAME")?;
    let vectors: Value =
        serde_json::from_str(&std::fs::read_to_string(o.req("vectors")?).map_err(|e| e.to_string())?)
            .map_err(|e| e.to_string())?;
    let mut by_class: HashMap<String, &Value> = HashMap::new();
    for s in &scns {
        if s["prm"]["fixed"].as_bool() == Some(true) {
            by_class.insert(class_key(&s["prm"]["pp"]), s);
        }
    }
    let mut name_class: HashMap<String, String> = HashMap::new();
    for n in &names {
        name_class.insert(n["name"].as_str().unwrap_or("").to_string(), class_key(n));
    }
    let mut checked = 0usize;
    let mut skipped = 0usize;
    let mut msgs = 0usize;
    let mut fails: Vec<String> = vec![];
    for v in vectors["vectors"].as_array().ok_or("vectors")? {
        let name = v["protocol_name"].as_str().ok_or("protocol_name")?;
        let parts: Vec<&str> = name.split('_').collect();
        let (dh, cipher, hash) = match (DhAlg::parse(parts[2]), CipherAlg::parse(parts[3]), HashAlg::parse(parts[4])) {
            (Some(d), Some(c), Some(h)) => (d, c, h),
            _ => {
                skipped += 1;
                continue;
            },
        };
        let ck = match name_class.get(name) {
            Some(c) => c,
            None => {
                skipped += 1;
                continue;
            },
        };
        let scn = match by_class.get(ck) {
            Some(s) => *s,
            None => return Err(format!("no anchor scenario for class {ck} ({name})")),
        };
        let hexv = |k: &str| -> Option<Vec<u8>> { v.get(k).and_then(|x| x.as_str()).and_then(|s| hex::decode(s).ok()) };
        let mut b = Bindings::default();
        b.atoms.insert("name".into(), name.as_bytes().to_vec());
        b.atoms.insert("prologue".into(), hexv("init_prologue").unwrap_or_default());
        if let Some(k) = hexv("init_static") {
            b.atoms.insert("sI".into(), k);
        }
        if let Some(k) = hexv("resp_static") {
            b.atoms.insert("sR".into(), k);
        }
        if let Some(k) = hexv("init_ephemeral") {
            b.atoms.insert("eI".into(), k);
        }
        if let Some(k) = hexv("resp_ephemeral") {
            b.atoms.insert("eR".into(), k);
        }
        // one psk per psk modifier, in modifier order
        let psk_idx: Vec<u64> =
            scn["prm"]["pp"]["psks"].as_array().map(|a| a.iter().filter_map(|x| x.as_u64()).collect()).unwrap_or_default();
        if let Some(pl) = v.get("init_psks").and_then(|x| x.as_array()) {
            for (i, p) in pl.iter().enumerate() {
                if let (Some(idx), Some(k)) = (psk_idx.get(i), p.as_str().and_then(|s| hex::decode(s).ok())) {
                    b.atoms.insert(format!("psk{idx}"), k);
                }
            }
        }
        let vm = v["messages"].as_array().ok_or("messages")?;
        let nmsgs = scn["steps"]
            .as_array()
            .unwrap()
            .iter()
            .filter(|s| s["op"].as_str() == Some("hs_write"))
            .count();
        for (i, m) in vm.iter().enumerate() {
            let id = if i < nmsgs { format!("p{}", i + 1) } else { format!("t{}", i - nmsgs + 1) };
            b.lits.insert(id, hex::decode(m["payload"].as_str().unwrap_or("")).map_err(|e| e.to_string())?);
        }
        let mut ar = Arena::new();
        let writes: Vec<&Value> = scn["steps"]
            .as_array()
            .unwrap()
            .iter()
            .filter(|s| matches!(s["op"].as_str(), Some("hs_write") | Some("t_write")))
            .collect();
        if writes.len() != vm.len() {
            return Err(format!("{name}: scenario has {} writes, vector {} messages", writes.len(), vm.len()));
        }
        let ps = PrimSet { dh, cipher, hash };
        let mut ids = vec![];
        for w in &writes {
            ids.push(ar.intern(&w["exp"]["out"])?);
        }
        let hh_id = ar.intern(&writes[nmsgs - 1]["exp"]["obs"]["hh"])?;
        let mut ev = Evaluator::new(ps, &b, &ar);
        let mut ok = true;
        for (i, id) in ids.iter().enumerate() {
            let got = ev.eval_seq(*id).map_err(|e| format!("{name} msg {i}: {e}"))?;
            let want = hex::decode(vm[i]["ciphertext"].as_str().unwrap_or("")).map_err(|e| e.to_string())?;
            msgs += 1;
            if got != want {
                ok = false;
                fails.push(format!("{name}: message {} differs from the vector", i + 1));
                break;
            }
        }
        if ok {
            if let Some(hh) = hexv("handshake_hash") {
                let got = ev.eval(hh_id)?;
                if got != hh {
                    fails.push(format!("{name}: handshake hash differs from the vector"));
                }
            }
        }
        checked += 1;
    }
    println!(
        "{}",
        serde_json::json!({"anchor":"cacophony","vectors_checked":checked,"vectors_skipped_unsupported":skipped,
                           "messages_compared":msgs,"failures":fails.len(),"first_failures":fails.iter().take(5).collect::<Vec<_>>()})
    );
    if !fails.is_empty() || checked == 0 {
        return Err(format!("anchor failed: {} of {} vectors", fails.len(), checked));
    }
    Ok(0)
}
