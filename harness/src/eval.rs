//! Term evaluator: a homomorphism from the symbolic terms of spec/NoiseTerms.tla (as JSON
//! arrays) to bytes, over the independent primitive layer.  Contains no protocol logic:
//! it never decides which token mixes what, only what `h`, `kdf`, `aead`, `dh`, ... mean.

use crate::prims::{self, CipherAlg, DhAlg, HashAlg};
use serde_json::Value;
use std::collections::HashMap;

#[derive(Clone, Copy, Debug, PartialEq, Eq, Hash)]
pub struct PrimSet {
    pub dh: DhAlg,
    pub cipher: CipherAlg,
    pub hash: HashAlg,
}

/// What the atoms / literals / random draws of a scenario are bound to.
#[derive(Clone, Default)]
pub struct Bindings {
    pub atoms: HashMap<String, Vec<u8>>, // "sI", "psk0", "prologue", "name", ...
    pub lits: HashMap<String, Vec<u8>>,  // payload ids
    pub seed: u64,                       // random-source seed: draw k of endpoint ep = draw_bytes(seed, ep, k)
    /// KEM oracle (hfs): "pub|ep|k", "encpk|ep|k", "ct|ep|k", "ss|ep|k", "dec|ep|<hex ct digest>" -> bytes recorded
    /// from the KEM objects of the endpoints
    pub kem: HashMap<String, Vec<u8>>,
}

/// The k-th draw (of `len` bytes) of endpoint `ep`'s deterministic random source.
pub fn draw_bytes(seed: u64, ep: &str, k: u64, len: usize) -> Vec<u8> {
    let mut out = Vec::with_capacity(len);
    let mut ctr = 0u32;
    while out.len() < len {
        let block = prims::hash(
            HashAlg::Sha256,
            &[b"snowverif-rng", &seed.to_le_bytes(), ep.as_bytes(), &k.to_le_bytes(), &ctr.to_le_bytes()],
        );
        out.extend_from_slice(&block);
        ctr += 1;
    }
    out.truncate(len);
    out
}

/// Deterministic junk for literals / alterations.
pub fn junk_bytes(seed: u64, label: &str, len: usize) -> Vec<u8> {
    let mut out = Vec::with_capacity(len);
    let mut ctr = 0u32;
    while out.len() < len {
        let block =
            prims::hash(HashAlg::Sha256, &[b"snowverif-junk", &seed.to_le_bytes(), label.as_bytes(), &ctr.to_le_bytes()]);
        out.extend_from_slice(&block);
        ctr += 1;
    }
    out.truncate(len);
    out
}

pub fn nonce_value(v: &Value) -> Result<u64, String> {
    let a = v.as_array().ok_or("nonce not array")?;
    let tag = a.first().and_then(|x| x.as_str()).ok_or("nonce tag")?;
    let j = a.get(1).and_then(|x| x.as_u64()).ok_or("nonce arg")?;
    match tag {
        "lo" => Ok(j),
        "top" => Ok(u64::MAX - j),
        "pow" => Ok((1u64 << j) + a.get(2).and_then(|x| x.as_u64()).unwrap_or(0)),
        _ => Err(format!("bad nonce tag {tag}")),
    }
}

pub fn is_none(v: &Value) -> bool {
    v.as_array().map(|a| a.len() == 1 && a[0].as_str() == Some("none")).unwrap_or(false)
}

/// Hash-consed JSON: every distinct (sub)value is stored once, so a term is a node id and
/// evaluation memoises per id (terms share most of their structure).
#[derive(Clone, Debug, PartialEq, Eq, Hash)]
pub enum Node {
    Str(String),
    Num(u64),
    Bool(bool),
    Arr(Vec<usize>),
}

#[derive(Default)]
pub struct Arena {
    pub nodes: Vec<Node>,
    index: HashMap<Node, usize>,
}

impl Arena {
    pub fn new() -> Self {
        Self::default()
    }
    fn put(&mut self, n: Node) -> usize {
        if let Some(&i) = self.index.get(&n) {
            return i;
        }
        let i = self.nodes.len();
        self.nodes.push(n.clone());
        self.index.insert(n, i);
        i
    }
    /// Intern a JSON term (arrays, strings, non-negative integers, booleans).
    pub fn intern(&mut self, v: &Value) -> Result<usize, String> {
        match v {
            Value::String(s) => Ok(self.put(Node::Str(s.clone()))),
            Value::Number(n) => Ok(self.put(Node::Num(n.as_u64().ok_or("negative/float number in term")?))),
            Value::Bool(b) => Ok(self.put(Node::Bool(*b))),
            Value::Array(a) => {
                let mut ids = Vec::with_capacity(a.len());
                for x in a {
                    ids.push(self.intern(x)?);
                }
                Ok(self.put(Node::Arr(ids)))
            },
            _ => Err(format!("cannot intern {v}")),
        }
    }
    pub fn arr(&self, id: usize) -> Result<&[usize], String> {
        match &self.nodes[id] {
            Node::Arr(a) => Ok(a),
            n => Err(format!("expected array node, got {n:?}")),
        }
    }
    pub fn str(&self, id: usize) -> Result<&str, String> {
        match &self.nodes[id] {
            Node::Str(s) => Ok(s),
            n => Err(format!("expected string node, got {n:?}")),
        }
    }
    pub fn num(&self, id: usize) -> Result<u64, String> {
        match &self.nodes[id] {
            Node::Num(n) => Ok(*n),
            n => Err(format!("expected number node, got {n:?}")),
        }
    }
    pub fn tag(&self, id: usize) -> Result<&str, String> {
        let a = self.arr(id)?;
        self.str(*a.first().ok_or("empty term")?)
    }
    pub fn is_none(&self, id: usize) -> bool {
        matches!(self.tag(id), Ok("none"))
    }
    pub fn nonce(&self, id: usize) -> Result<u64, String> {
        let a = self.arr(id)?;
        let j = self.num(a[1])?;
        match self.str(a[0])? {
            "lo" => Ok(j),
            "top" => Ok(u64::MAX - j),
            "pow" => Ok((1u64 << j) + self.num(a[2])?),
            t => Err(format!("bad nonce tag {t}")),
        }
    }
    pub fn nonce_any(&self, id: usize) -> Result<u64, String> {
        let a = self.arr(id)?;
        match self.str(a[0])? {
            "hex" => u64::from_str_radix(self.str(a[1])?, 16).map_err(|e| e.to_string()),
            _ => self.nonce(id),
        }
    }
    /// Render a node back to JSON (for replay files / samples).
    pub fn to_json(&self, id: usize) -> Value {
        match &self.nodes[id] {
            Node::Str(s) => Value::String(s.clone()),
            Node::Num(n) => Value::from(*n),
            Node::Bool(b) => Value::Bool(*b),
            Node::Arr(a) => Value::Array(a.iter().map(|&i| self.to_json(i)).collect()),
        }
    }
}

pub struct Evaluator<'a> {
    pub ps: PrimSet,
    pub b: &'a Bindings,
    pub ar: &'a Arena,
    memo: HashMap<usize, Vec<u8>>,
}

impl<'a> Evaluator<'a> {
    pub fn new(ps: PrimSet, b: &'a Bindings, ar: &'a Arena) -> Self {
        Evaluator { ps, b, ar, memo: HashMap::new() }
    }

    /// Concatenation of the evaluations of an array of terms.
    pub fn eval_seq(&mut self, seq: usize) -> Result<Vec<u8>, String> {
        let mut out = Vec::new();
        for &t in self.ar.arr(seq)? {
            out.extend_from_slice(&self.eval(t)?);
        }
        Ok(out)
    }

    pub fn eval(&mut self, t: usize) -> Result<Vec<u8>, String> {
        if let Some(v) = self.memo.get(&t) {
            return Ok(v.clone());
        }
        let v = self.eval_inner(t)?;
        self.memo.insert(t, v.clone());
        Ok(v)
    }

    fn eval_inner(&mut self, t: usize) -> Result<Vec<u8>, String> {
        let ps = self.ps;
        let ar = self.ar;
        let a = ar.arr(t)?;
        let tag = ar.str(a[0])?;
        match tag {
            "a" | "ref" => {
                let name = ar.str(a[1])?;
                self.b.atoms.get(name).cloned().ok_or_else(|| format!("unbound atom/ref {name}"))
            },
            "lit" => {
                let id = ar.str(a[1])?;
                let len = ar.num(a[2])? as usize;
                if len == 0 && id.is_empty() {
                    return Ok(vec![]);
                }
                match self.b.lits.get(id) {
                    Some(v) => Ok(v.clone()),
                    None => Ok(junk_bytes(self.b.seed, &format!("lit:{id}"), len)),
                }
            },
            "rand" => {
                let ep = ar.str(a[1])?;
                Ok(draw_bytes(self.b.seed, ep, ar.num(a[2])?, ar.num(a[3])? as usize))
            },
            "none" => Err("evaluating none".into()),
            // ---- KEM oracle terms (hfs): bound to what the recorded KEM object produced
            "kemsk" => Err("a KEM secret key has no byte value outside the library".into()),
            "kempub" => {
                let sk = ar.arr(a[1])?;
                let key = format!("pub|{}|{}", ar.str(sk[1])?, ar.num(sk[2])?);
                Ok(self.b.kem.get(&key).cloned().unwrap_or_else(|| junk_bytes(self.b.seed, &format!("unbound:{key}"), 1568)))
            },
            "kemct" | "kemss" => {
                let pk = self.eval(a[1])?;
                let ep = ar.str(a[2])?;
                let k = ar.num(a[3])?;
                let len = if tag == "kemct" { 1568 } else { 32 };
                // the encapsulation must have been made to the key the specification says
                match self.b.kem.get(&format!("encpk|{ep}|{k}")) {
                    Some(p) if *p == pk => {},
                    _ => return Ok(junk_bytes(self.b.seed, &format!("kem-mismatch:{tag}|{ep}|{k}"), len)),
                }
                let key = format!("{}|{ep}|{k}", if tag == "kemct" { "ct" } else { "ss" });
                Ok(self.b.kem.get(&key).cloned().unwrap_or_else(|| junk_bytes(self.b.seed, &format!("unbound:{key}"), len)))
            },
            "kemrej" => {
                let ct = self.eval(a[1])?;
                let sk = ar.arr(a[2])?;
                let key = format!("dec|{}|{}", ar.str(sk[1])?, hex::encode(prims::hash(HashAlg::Sha256, &[&ct])));
                Ok(self.b.kem.get(&key).cloned().unwrap_or_else(|| junk_bytes(self.b.seed, &format!("unbound:{key}"), 32)))
            },
            "pub" => {
                let sk = self.eval(a[1])?;
                prims::dh_pub(ps.dh, &sk).ok_or_else(|| "pub: unusable private key".to_string())
            },
            "dh" => {
                let set = ar.arr(a[1])?;
                let (x, y) = match set.len() {
                    1 => (set[0], set[0]),
                    2 => (set[0], set[1]),
                    _ => return Err("dh set size".into()),
                };
                let sx = self.eval(x)?;
                let sy = self.eval(y)?;
                let py = prims::dh_pub(ps.dh, &sy).ok_or("dh: pub")?;
                prims::dh(ps.dh, &sx, &py).ok_or_else(|| "dh failed".to_string())
            },
            "dhx" => {
                let sk = self.eval(a[1])?;
                let pk = self.eval(a[2])?;
                prims::dh(ps.dh, &sk, &pk).ok_or_else(|| "dhx failed".to_string())
            },
            "h" => {
                let data = self.eval_seq(a[1])?;
                Ok(prims::hash(ps.hash, &[&data]))
            },
            "pad" => {
                let mut v = self.eval(a[1])?;
                if v.len() > ps.hash.hash_len() {
                    return Err("pad: longer than HASHLEN".into());
                }
                v.resize(ps.hash.hash_len(), 0);
                Ok(v)
            },
            "kdf" => {
                let ck = self.eval(a[1])?;
                let ikm = self.eval(a[2])?;
                Ok(prims::hkdf(ps.hash, &ck, &ikm, ar.num(a[3])? as usize))
            },
            "byte" => Ok(vec![ar.num(a[1])? as u8]),
            "cat" => self.eval_seq(a[1]),
            "xorpad" => {
                let mut v = self.eval(a[1])?;
                let b = ar.num(a[2])? as u8;
                if v.len() > ps.hash.block_len() {
                    return Err("xorpad: key longer than BLOCKLEN".into());
                }
                v.resize(ps.hash.block_len(), 0);
                for x in v.iter_mut() {
                    *x ^= b;
                }
                Ok(v)
            },
            "trunc" => {
                let mut v = self.eval(a[1])?;
                let n = ar.num(a[2])? as usize;
                if v.len() < n {
                    return Err("trunc: too short".into());
                }
                v.truncate(n);
                Ok(v)
            },
            "aead" => {
                let k = self.eval(a[1])?;
                let n = ar.nonce_any(a[2])?;
                let ad = self.eval(a[3])?;
                let pt = self.eval(a[4])?;
                Ok(prims::aead_encrypt(ps.cipher, &k, n, &ad, &pt))
            },
            "rekey" => {
                let k = self.eval(a[1])?;
                Ok(prims::rekey(ps.cipher, &k))
            },
            "alt" => {
                let mut v = self.eval(a[1])?;
                let kind = ar.str(a[2])?;
                if v.is_empty() {
                    return Err("alt of empty".into());
                }
                let l = v.len();
                match kind {
                    "flipfirst" => v[0] ^= 0x01,
                    "fliplast" => v[l - 1] ^= 0x80,
                    "flipmid" => v[l / 2] ^= 0x10,
                    // the inverse of an uncompressed P-256 point: (x, p - y)
                    "negate" => {
                        if l != 65 || v[0] != 4 {
                            return Err("negate: not an uncompressed P-256 point".into());
                        }
                        const P: [u8; 32] = [
                            0xff, 0xff, 0xff, 0xff, 0x00, 0x00, 0x00, 0x01, 0, 0, 0, 0, 0, 0, 0, 0, 0, 0, 0, 0, 0xff, 0xff, 0xff, 0xff, 0xff,
                            0xff, 0xff, 0xff, 0xff, 0xff, 0xff, 0xff,
                        ];
                        let mut borrow = 0i16;
                        for i in (0..32).rev() {
                            let d = P[i] as i16 - v[33 + i] as i16 - borrow;
                            if d < 0 {
                                v[33 + i] = (d + 256) as u8;
                                borrow = 1;
                            } else {
                                v[33 + i] = d as u8;
                                borrow = 0;
                            }
                        }
                    },
                    "junk" => {
                        let mut j = junk_bytes(self.b.seed, &format!("alt:{}", hex::encode(&v[..l.min(8)])), l);
                        if j == v {
                            j[0] ^= 1;
                        }
                        v = j;
                    },
                    _ => return Err(format!("alt kind {kind}")),
                }
                Ok(v)
            },
            "cut" => {
                let mut v = self.eval(a[1])?;
                let keep = ar.num(a[2])? as usize;
                if keep > v.len() {
                    return Err("cut: keep > len".into());
                }
                v.truncate(keep);
                Ok(v)
            },
            "mis" => {
                let all = self.eval_seq(a[1])?;
                let off = ar.num(a[2])? as usize;
                let len = ar.num(a[3])? as usize;
                if off + len > all.len() {
                    return Err("mis: out of range".into());
                }
                Ok(all[off..off + len].to_vec())
            },
            _ => Err(format!("unknown term tag {tag}")),
        }
    }
}
