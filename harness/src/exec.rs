//! Scenario executor + comparator (leg D1).  Does what the scenario says, nothing else:
//! builds endpoints through the public Builder with the recording resolver, performs each
//! call under catch_unwind, and compares result class, lengths, flags, nonces and bytes with
//! the expectation computed by TLC (terms are turned into bytes by eval.rs).

use crate::eval::{Arena, Bindings, Evaluator, PrimSet};
use crate::resolver::{new_log, Backend, Op, RecResolver, SharedLog};
use serde_json::{json, Value};
use snow::{Builder, HandshakeState, StatelessTransportState, TransportState};
use std::collections::HashMap;
use std::panic::{catch_unwind, AssertUnwindSafe};

pub enum Endpoint {
    Absent,
    Hs(Box<HandshakeState>),
    Tr(Box<TransportState>),
    Sl(Box<StatelessTransportState>),
    Dead,
}

#[derive(Clone, Debug)]
pub struct Instance {
    pub names: HashMap<String, String>, // endpoint id -> protocol name ("*" = default)
    pub ps: PrimSet,
    pub backends: HashMap<String, Backend>, // endpoint id -> backend ("*" = default)
    pub seed: u64,
    pub prologue_len: usize,
    pub psks: Vec<u8>, // psk indices of the primary name (for the protocol-agnostic session setup)
}

impl Instance {
    pub fn name_for(&self, ep: &str) -> &str {
        self.names.get(ep).or_else(|| self.names.get("*")).map(|s| s.as_str()).unwrap_or("")
    }
    pub fn backend_for(&self, ep: &str) -> Backend {
        *self.backends.get(ep).or_else(|| self.backends.get("*")).unwrap_or(&Backend::Default)
    }
    pub fn to_json(&self) -> Value {
        json!({
            "names": self.names,
            "dh": self.ps.dh.name(), "cipher": self.ps.cipher.name(), "hash": self.ps.hash.name(),
            "backends": self.backends.iter().map(|(k, v)| (k.clone(), v.name().to_string())).collect::<HashMap<_, _>>(),
            "seed": self.seed, "prologue_len": self.prologue_len, "psks": self.psks,
        })
    }
}

#[derive(Clone, Debug)]
pub struct Violation {
    pub step: usize,
    pub op: String,
    pub what: String, // which observable differs: "result", "len", "bytes", "obs.hh", "panic", ...
    pub expected: String,
    pub observed: String,
    pub cause: String, // the model's cause label(s) for the step, if any
}

impl Violation {
    pub fn to_json(&self) -> Value {
        json!({"step": self.step, "op": self.op, "what": self.what, "expected": self.expected,
               "observed": self.observed, "cause": self.cause})
    }
}

#[derive(Default)]
pub struct Outcome {
    pub violations: Vec<Violation>,
    pub steps_run: usize,
    pub calls: usize,
    pub diverged_slack: bool,
    pub tool_error: Option<String>,
    pub ops: Vec<Op>,
}

fn hx(b: &[u8]) -> String {
    if b.len() <= 48 {
        hex::encode(b)
    } else {
        format!("{}..({} bytes)..{}", hex::encode(&b[..16]), b.len(), hex::encode(&b[b.len() - 16..]))
    }
}

pub fn err_kind(e: &snow::Error) -> String {
    format!("{:?}", e)
}

fn kinds_allow(kinds: &Value, got: &str) -> bool {
    match kinds.as_array() {
        Some(a) => a.iter().any(|k| k.as_str() == Some("*") || k.as_str() == Some(got)),
        None => false,
    }
}

fn cause_of(exp: &Value) -> String {
    if let Some(c) = exp.get("cause").and_then(|c| c.as_str()) {
        return c.to_string();
    }
    if let Some(a) = exp.get("causes").and_then(|c| c.as_array()) {
        let mut v: Vec<String> = a.iter().filter_map(|x| x.as_str().map(|s| s.to_string())).collect();
        v.sort();
        return v.join("+");
    }
    String::new()
}

pub struct Runner<'a> {
    pub scn: &'a Value,
    pub inst: &'a Instance,
    pub ar: Arena,
    pub bind: Bindings,
    pub eps: HashMap<String, Endpoint>,
    pub log: SharedLog,
    pub out: Outcome,
    /// what the caller's output buffer looked like after the last call (C19)
    pub last_outbuf: Vec<u8>,
    kem_seen: usize,
    /// position (in bytes) of each endpoint's deterministic random source
    rng_pos: HashMap<String, std::sync::Arc<std::sync::Mutex<u64>>>,
}

enum CallRes {
    Ok(usize),
    Err(String),
    Panic(String),
}

fn do_call<F: FnOnce() -> Result<usize, snow::Error>>(f: F) -> CallRes {
    match catch_unwind(AssertUnwindSafe(f)) {
        Ok(Ok(n)) => CallRes::Ok(n),
        Ok(Err(e)) => CallRes::Err(err_kind(&e)),
        Err(p) => {
            let msg = if let Some(s) = p.downcast_ref::<&str>() {
                s.to_string()
            } else if let Some(s) = p.downcast_ref::<String>() {
                s.clone()
            } else {
                "panic".to_string()
            };
            CallRes::Panic(msg)
        },
    }
}

impl<'a> Runner<'a> {
    pub fn new(scn: &'a Value, inst: &'a Instance) -> Self {
        let mut bind = Bindings::default();
        bind.seed = inst.seed;
        for a in ["sI", "sR", "sX", "sY", "eI", "eR", "psk0", "psk1", "psk2", "psk3", "psk4", "pskX", "mk1", "mk2"] {
            bind.atoms.insert(a.to_string(), crate::eval::junk_bytes(inst.seed, &format!("atom:{a}"), 32));
        }
        // special VALUES (the model's atoms are opaque; which bytes stand for them is the harness's choice): in some
        // instances ONE secret is all zeros or all ones, or a static key pair is searched whose public key ends in 0x00 /
        // starts with 0x00 after the format byte - values a length or equality shortcut in the code could trip over.
        // At most one atom per instance is special, so distinct atoms keep distinct values.
        let sel = crate::eval::junk_bytes(inst.seed, "special", 2);
        match sel[0] % 12 {
            0 => {
                bind.atoms.insert(format!("psk{}", sel[1] % 5), vec![0u8; 32]);
            },
            1 => {
                bind.atoms.insert("mk1".into(), vec![0u8; 32]);
            },
            2 => {
                bind.atoms.insert("mk2".into(), vec![0u8; 32]);
            },
            3 => {
                bind.atoms.insert(format!("psk{}", sel[1] % 5), vec![0xffu8; 32]);
            },
            4 | 5 => {
                let who = if sel[1] & 1 == 0 { "sR" } else { "sI" };
                for i in 0..4096u32 {
                    let sk = crate::eval::junk_bytes(inst.seed, &format!("atom:{who}#{i}"), 32);
                    if let Some(pk) = crate::prims::dh_pub(inst.ps.dh, &sk) {
                        let hit = if sel[0] % 12 == 4 { pk.last() == Some(&0) } else { pk.get(pk.len() - 32) == Some(&0) };
                        if hit {
                            bind.atoms.insert(who.into(), sk);
                            break;
                        }
                    }
                }
            },
            _ => {},
        }
        bind.atoms.insert(
            "prologue".into(),
            crate::eval::junk_bytes(inst.seed, "atom:prologue", inst.prologue_len),
        );
        // "prologue2" must differ from "prologue": one flipped bit, or one extra byte when it is empty
        let mut p2 = crate::eval::junk_bytes(inst.seed, "atom:prologue", inst.prologue_len);
        if p2.is_empty() {
            p2.push(0x01);
        } else {
            let l = p2.len();
            p2[l - 1] ^= 0x01;
        }
        bind.atoms.insert("prologue2".into(), p2);
        // "prologue3": the same bytes followed by one zero byte
        let mut p3 = crate::eval::junk_bytes(inst.seed, "atom:prologue", inst.prologue_len);
        p3.push(0);
        bind.atoms.insert("prologue3".into(), p3);
        bind.atoms.insert("name".into(), inst.name_for("*").as_bytes().to_vec());
        if scn.get("name2").is_some() {
            bind.atoms.insert("name2".into(), inst.name_for("R").as_bytes().to_vec());
        }
        Runner {
            scn,
            inst,
            ar: Arena::new(),
            bind,
            eps: HashMap::new(),
            log: new_log(),
            out: Outcome::default(),
            last_outbuf: vec![],
            kem_seen: 0,
            rng_pos: HashMap::new(),
        }
    }

    fn viol(&mut self, step: usize, op: &str, what: &str, expected: String, observed: String, cause: &str) {
        self.out.violations.push(Violation {
            step,
            op: op.to_string(),
            what: what.to_string(),
            expected,
            observed,
            cause: cause.to_string(),
        });
    }

    /// Bind the KEM oracle terms to what the endpoints' KEM objects have produced so far (hfs).
    fn sync_kem(&mut self) {
        use crate::resolver::KemOp;
        let l = self.log.lock().unwrap();
        if l.kem.len() == self.kem_seen {
            return;
        }
        for op in &l.kem[self.kem_seen..] {
            match op {
                KemOp::Gen { ep, k, pubkey } => {
                    self.bind.kem.insert(format!("pub|{ep}|{k}"), pubkey.clone());
                },
                KemOp::Encap { ep, k, pubkey, ct, ss } => {
                    self.bind.kem.insert(format!("encpk|{ep}|{k}"), pubkey.clone());
                    self.bind.kem.insert(format!("ct|{ep}|{k}"), ct.clone());
                    self.bind.kem.insert(format!("ss|{ep}|{k}"), ss.clone());
                },
                KemOp::Decap { ep, ct, ss } => {
                    let d = hex::encode(crate::prims::hash(crate::prims::HashAlg::Sha256, &[ct]));
                    self.bind.kem.insert(format!("dec|{ep}|{d}"), ss.clone());
                },
            }
        }
        self.kem_seen = l.kem.len();
    }

    fn ev(&mut self, v: &Value) -> Result<Vec<u8>, String> {
        self.sync_kem();
        let id = self.ar.intern(v)?;
        // the evaluator borrows arena + bindings immutably; memo lives per call-site batch
        let mut e = Evaluator::new(self.inst.ps, &self.bind, &self.ar);
        e.eval(id)
    }
    fn ev_seq(&mut self, v: &Value) -> Result<Vec<u8>, String> {
        self.sync_kem();
        let id = self.ar.intern(v)?;
        let mut e = Evaluator::new(self.inst.ps, &self.bind, &self.ar);
        e.eval_seq(id)
    }
    fn ev_opt(&mut self, v: &Value) -> Result<Option<Vec<u8>>, String> {
        if crate::eval::is_none(v) {
            Ok(None)
        } else {
            Ok(Some(self.ev(v)?))
        }
    }

    /// Run all steps. Stops at the first violation of a step (later steps depend on it).
    pub fn run(mut self) -> Outcome {
        let steps = match self.scn.get("steps").and_then(|s| s.as_array()) {
            Some(s) => s.clone(),
            None => {
                self.out.tool_error = Some("scenario without steps".into());
                return self.out;
            },
        };
        if self.scn["family"].as_str() == Some("transport") {
            if let Err(e) = self.setup_transport() {
                // an honest handshake of the code under test failing is data, not a tool problem
                self.viol(0, "session_setup", "honest_handshake_failed", "both sides finish".into(), e, "");
                self.out.calls += 1;
                return self.out;
            }
        }
        for (i, st) in steps.iter().enumerate() {
            let before = self.out.violations.len();
            match self.step(i, st) {
                Ok(cont) => {
                    self.out.steps_run += 1;
                    if !cont || self.out.violations.len() > before {
                        break;
                    }
                },
                Err(e) => {
                    self.out.tool_error = Some(format!("step {i}: {e}"));
                    break;
                },
            }
        }
        self.out.ops = self.log.lock().unwrap().ops.clone();
        self.out
    }

    /// Protocol-agnostic session setup for the transport scenarios: build both ends with every key the
    /// name could need, let whoever's turn it is write until both report finished, read the raw split
    /// (bound to the references K1/K2, donor session: D1/D2), convert to the requested mode.
    fn honest_session(&mut self, ids: (&str, &str), stateful: bool, convert: bool) -> Result<([u8; 32], [u8; 32]), String> {
        let name = self.inst.name_for("*").to_string();
        let ps = self.inst.ps;
        let s_i = self.bind.atoms["sI"].clone();
        let s_r = self.bind.atoms["sR"].clone();
        let pub_i = crate::prims::dh_pub(ps.dh, &s_i).ok_or("sI unusable")?;
        let pub_r = crate::prims::dh_pub(ps.dh, &s_r).ok_or("sR unusable")?;
        let prologue = self.bind.atoms["prologue"].clone();
        let psk_idx: Vec<u8> = self.inst.psks.clone();
        let mut made: Vec<HandshakeState> = vec![];
        for (k, id) in [ids.0, ids.1].iter().enumerate() {
            let params: snow::params::NoiseParams = name.parse().map_err(|e| format!("{e:?}"))?;
            let resolver = RecResolver::new(self.inst.backend_for(if k == 0 { "I" } else { "R" }), id, self.inst.seed, true, self.log.clone());
            let mut b = Builder::with_resolver(params, Box::new(resolver));
            let (sk, rk) = if k == 0 { (&s_i, &pub_r) } else { (&s_r, &pub_i) };
            b = b.local_private_key(sk).map_err(|e| format!("{e:?}"))?;
            b = b.remote_public_key(rk).map_err(|e| format!("{e:?}"))?;
            b = b.prologue(&prologue).map_err(|e| format!("{e:?}"))?;
            let keys: Vec<[u8; 32]> = psk_idx
                .iter()
                .map(|n| self.bind.atoms[&format!("psk{n}")].as_slice().try_into().unwrap())
                .collect();
            for (j, n) in psk_idx.iter().enumerate() {
                b = b.psk(*n, &keys[j]).map_err(|e| format!("{e:?}"))?;
            }
            let h = if k == 0 { b.build_initiator() } else { b.build_responder() }.map_err(|e| format!("build: {e:?}"))?;
            made.push(h);
        }
        let mut r = made.pop().unwrap();
        let mut i = made.pop().unwrap();
        let mut buf = vec![0u8; 70000];
        let mut out = vec![0u8; 70000];
        for _ in 0..12 {
            if i.is_handshake_finished() && r.is_handshake_finished() {
                break;
            }
            if i.is_my_turn() {
                let n = i.write_message(&[], &mut buf).map_err(|e| format!("hs write: {e:?}"))?;
                r.read_message(&buf[..n], &mut out).map_err(|e| format!("hs read: {e:?}"))?;
            } else {
                let n = r.write_message(&[], &mut buf).map_err(|e| format!("hs write: {e:?}"))?;
                i.read_message(&buf[..n], &mut out).map_err(|e| format!("hs read: {e:?}"))?;
            }
        }
        if !(i.is_handshake_finished() && r.is_handshake_finished()) {
            return Err("handshake did not finish".into());
        }
        let ks = catch_unwind(AssertUnwindSafe(|| i.dangerously_get_raw_split())).map_err(|_| "panic in dangerously_get_raw_split".to_string())?;
        if convert {
            let (ei, er) = if stateful {
                (
                    Endpoint::Tr(Box::new(i.into_transport_mode().map_err(|e| format!("{e:?}"))?)),
                    Endpoint::Tr(Box::new(r.into_transport_mode().map_err(|e| format!("{e:?}"))?)),
                )
            } else {
                (
                    Endpoint::Sl(Box::new(i.into_stateless_transport_mode().map_err(|e| format!("{e:?}"))?)),
                    Endpoint::Sl(Box::new(r.into_stateless_transport_mode().map_err(|e| format!("{e:?}"))?)),
                )
            };
            self.eps.insert(ids.0.to_string(), ei);
            self.eps.insert(ids.1.to_string(), er);
        }
        Ok(ks)
    }

    fn setup_transport(&mut self) -> Result<(), String> {
        let prm = &self.scn["prm"];
        let stateful = prm["stateful"].as_bool().ok_or("prm.stateful")?;
        let top = prm["noncemode"].as_str() == Some("top");
        let (k1, k2) = self.honest_session(("I", "R"), stateful, true)?;
        self.bind.atoms.insert("K1".into(), k1.to_vec());
        self.bind.atoms.insert("K2".into(), k2.to_vec());
        // the donor session (same long-term keys, other ephemerals) is only run when the scenario refers to it
        let txt = self.scn["steps"].to_string();
        if txt.contains("[\"ref\",\"D1\"]") || txt.contains("[\"ref\",\"D2\"]") {
            let (d1, d2) = self.honest_session(("I2", "R2"), stateful, false)?;
            self.bind.atoms.insert("D1".into(), d1.to_vec());
            self.bind.atoms.insert("D2".into(), d2.to_vec());
        }
        if top && stateful {
            for id in ["I", "R"] {
                if let Some(Endpoint::Tr(t)) = self.eps.get_mut(id) {
                    t.set_receiving_nonce(u64::MAX - 2);
                    crate::hook::set_sending_nonce(t, u64::MAX - 2);
                }
            }
        }
        // the setup's own cipher operations are not part of the scenario
        self.log.lock().unwrap().ops.clear();
        Ok(())
    }

    fn check_hs_obs(&mut self, i: usize, op: &str, id: &str, obs: &Value, cause: &str) -> Result<(), String> {
        let got = match self.eps.get(id) {
            Some(Endpoint::Hs(h)) => catch_unwind(AssertUnwindSafe(|| {
                (
                    h.is_my_turn(),
                    h.is_handshake_finished(),
                    h.is_initiator(),
                    h.get_handshake_hash().to_vec(),
                    h.get_remote_static().map(|x| x.to_vec()),
                )
            })),
            _ => return Err("check_hs_obs on non-handshake endpoint".into()),
        };
        let (turn, fin, init, hh, rs) = match got {
            Ok(v) => v,
            Err(_) => {
                self.viol(i, op, "panic", "state queries return".into(), "panic in a getter".into(), cause);
                return Ok(());
            },
        };
        let et = obs["turn"].as_bool().ok_or("obs.turn")?;
        let ef = obs["fin"].as_bool().ok_or("obs.fin")?;
        let ei = obs["init"].as_bool().ok_or("obs.init")?;
        if turn != et {
            self.viol(i, op, "obs.turn", et.to_string(), turn.to_string(), cause);
        }
        if fin != ef {
            self.viol(i, op, "obs.fin", ef.to_string(), fin.to_string(), cause);
        }
        if init != ei {
            self.viol(i, op, "obs.init", ei.to_string(), init.to_string(), cause);
        }
        let ehh = self.ev(&obs["hh"])?;
        if hh != ehh {
            self.viol(i, op, "obs.hh", hx(&ehh), hx(&hh), cause);
        }
        let ers = self.ev_opt(&obs["rs"])?;
        if rs != ers {
            self.viol(
                i,
                op,
                "obs.rs",
                ers.map(|x| hx(&x)).unwrap_or("None".into()),
                rs.map(|x| hx(&x)).unwrap_or("None".into()),
                cause,
            );
        }
        Ok(())
    }

    fn check_tr_obs(&mut self, i: usize, op: &str, id: &str, obs: &Value, cause: &str) -> Result<(), String> {
        let got = match self.eps.get(id) {
            Some(Endpoint::Tr(t)) => catch_unwind(AssertUnwindSafe(|| {
                (t.is_initiator(), t.get_remote_static().map(|x| x.to_vec()), Some(t.sending_nonce()), Some(t.receiving_nonce()))
            })),
            Some(Endpoint::Sl(t)) => {
                catch_unwind(AssertUnwindSafe(|| (t.is_initiator(), t.get_remote_static().map(|x| x.to_vec()), None, None)))
            },
            _ => return Err("check_tr_obs on non-transport endpoint".into()),
        };
        let (init, rs, sn, rn) = match got {
            Ok(v) => v,
            Err(_) => {
                self.viol(i, op, "panic", "state queries return".into(), "panic in a getter".into(), cause);
                return Ok(());
            },
        };
        let ei = obs["init"].as_bool().ok_or("obs.init")?;
        if init != ei {
            self.viol(i, op, "obs.init", ei.to_string(), init.to_string(), cause);
        }
        let skip_rs = obs["rs"].as_array().and_then(|a| a.first()).and_then(|x| x.as_str()) == Some("skip");
        let ers = if skip_rs { rs.clone() } else { self.ev_opt(&obs["rs"])? };
        if rs != ers {
            self.viol(
                i,
                op,
                "obs.rs",
                ers.map(|x| hx(&x)).unwrap_or("None".into()),
                rs.map(|x| hx(&x)).unwrap_or("None".into()),
                cause,
            );
        }
        if let Some(sn) = sn {
            if !crate::eval::is_none(&obs["sn"]) {
                let e = crate::eval::nonce_value(&obs["sn"])?;
                if e != sn {
                    self.viol(i, op, "obs.sending_nonce", e.to_string(), sn.to_string(), cause);
                }
            }
        }
        if let Some(rn) = rn {
            if !crate::eval::is_none(&obs["rn"]) {
                let e = crate::eval::nonce_value(&obs["rn"])?;
                if e != rn {
                    self.viol(i, op, "obs.receiving_nonce", e.to_string(), rn.to_string(), cause);
                }
            }
        }
        Ok(())
    }

    fn check_obs(&mut self, i: usize, op: &str, id: &str, obs: &Value, cause: &str) -> Result<(), String> {
        if obs.is_null() {
            return Ok(());
        }
        match self.eps.get(id) {
            Some(Endpoint::Hs(_)) => self.check_hs_obs(i, op, id, obs, cause),
            Some(Endpoint::Tr(_)) | Some(Endpoint::Sl(_)) => self.check_tr_obs(i, op, id, obs, cause),
            _ => Ok(()),
        }
    }

    /// Compare the result of a write/read-like call. Returns Ok(true) to continue.
    #[allow(clippy::too_many_arguments)]
    fn judge(
        &mut self,
        i: usize,
        op: &str,
        id: &str,
        exp: &Value,
        res: CallRes,
        outbuf: &[u8],
        expect_bytes: Option<&Value>, // seq of terms (write) or single term (read payload)
        bytes_is_seq: bool,
    ) -> Result<bool, String> {
        let cause = cause_of(exp);
        let eres = exp["res"].as_str().ok_or("exp.res")?;
        let slack = exp.get("slack").and_then(|s| s.as_bool()).unwrap_or(false);
        self.out.calls += 1;
        match res {
            CallRes::Panic(msg) => {
                self.viol(i, op, "panic", format!("{eres} (a defined Ok/Err outcome)"), format!("panic: {msg}"), &cause);
                Ok(false)
            },
            CallRes::Ok(n) => {
                if eres != "ok" {
                    if slack {
                        self.out.diverged_slack = true;
                        return Ok(false);
                    }
                    self.viol(i, op, "result", format!("Err{}", exp["kinds"]), format!("Ok({n})"), &cause);
                    return Ok(false);
                }
                let elen = exp["len"].as_u64().ok_or("exp.len")? as usize;
                if n != elen {
                    self.viol(i, op, "len", elen.to_string(), n.to_string(), &cause);
                    return Ok(false);
                }
                if n > outbuf.len() {
                    self.viol(i, op, "len", format!("<= buffer {}", outbuf.len()), n.to_string(), &cause);
                    return Ok(false);
                }
                if let Some(t) = expect_bytes {
                    let eb = if bytes_is_seq { self.ev_seq(t)? } else { self.ev(t)? };
                    if eb != outbuf[..n] {
                        self.viol(i, op, "bytes", hx(&eb), hx(&outbuf[..n]), &cause);
                        return Ok(false);
                    }
                }
                if let Some(enc) = exp.get("enc").and_then(|e| e.as_bool()) {
                    if let Some(Endpoint::Hs(h)) = self.eps.get(id) {
                        let got = h.was_write_payload_encrypted();
                        if got != enc {
                            self.viol(i, op, "enc_flag", enc.to_string(), got.to_string(), &cause);
                        }
                    }
                }
                self.check_obs(i, op, id, &exp["obs"], &cause)?;
                Ok(true)
            },
            CallRes::Err(k) => {
                if eres == "ok" {
                    if slack && k == "Input" {
                        self.out.diverged_slack = true;
                        return Ok(false);
                    }
                    self.viol(i, op, "result", format!("Ok({})", exp["len"]), format!("Err({k})"), &cause);
                    return Ok(false);
                }
                if !kinds_allow(&exp["kinds"], &k) {
                    self.viol(i, op, "error_kind", exp["kinds"].to_string(), k, &cause);
                }
                // C19: none of the plaintexts the model says are at stake may be in the caller's buffer
                if let Some(nl) = exp.get("noleak").and_then(|x| x.as_array()) {
                    for t in nl.clone() {
                        let pt = self.ev(&t)?;
                        if pt.len() >= 8 {
                            let set: std::collections::HashSet<&[u8]> = pt.windows(8).collect();
                            let hit = outbuf.windows(8).any(|o| set.contains(o));
                            if hit {
                                self.viol(i, op, "plaintext_leak", "no 8-byte run of the rejected message's plaintext in the output buffer".into(),
                                          format!("output buffer ({} bytes) contains plaintext of {}", outbuf.len(), t.to_string().chars().take(60).collect::<String>()), &cause);
                            }
                        }
                    }
                }
                self.check_obs(i, op, id, &exp["obs"], &cause)?;
                Ok(true)
            },
        }
    }

    fn step(&mut self, i: usize, st: &Value) -> Result<bool, String> {
        let op = st["op"].as_str().ok_or("step.op")?.to_string();
        let id = st["ep"].as_str().ok_or("step.ep")?.to_string();
        let args = &st["args"];
        let exp = &st["exp"];
        match op.as_str() {
            "build" => self.step_build(i, &id, args, exp),
            "adv" => Ok(true), // the adversary replaced the message on the wire: nothing to call
            "hs_write" => {
                let payload = self.ev(&args["payload"])?;
                let buflen = args["buf"].as_u64().ok_or("buf")? as usize;
                let mut buf = vec![0xA5u8; buflen];
                // position the random source at the model's draw index for this call
                let before = match (args["rng"].as_u64(), self.rng_pos.get(&id)) {
                    (Some(k), Some(c)) => {
                        *c.lock().unwrap() = 32 * k;
                        Some(32 * k)
                    },
                    _ => None,
                };
                let res = match self.eps.get_mut(&id) {
                    Some(Endpoint::Hs(h)) => do_call(|| h.write_message(&payload, &mut buf)),
                    _ => return Err("hs_write on non-handshake endpoint".into()),
                };
                self.last_outbuf = buf.clone();
                // C06: a fresh ephemeral in the message was drawn from the resolver's source during THIS call
                let fresh_e = matches!(res, CallRes::Ok(_))
                    && exp["out"].as_array().map(|a| a.iter().any(|f| f[0] == "pub" && f[1][0] == "rand")).unwrap_or(false);
                if let (true, Some(b), Some(c)) = (fresh_e, before, self.rng_pos.get(&id)) {
                    if *c.lock().unwrap() == b {
                        self.viol(i, &op, "ephemeral_not_drawn", "the ephemeral key is drawn during this write".into(),
                                  "no bytes were taken from the random source".into(), "");
                    }
                }
                self.judge(i, &op, &id, exp, res, &buf, exp.get("out"), true)
            },
            "hs_read" => {
                let msg = self.ev_seq(&args["msg"])?;
                let outlen = args["outlen"].as_u64().ok_or("outlen")? as usize;
                let mut buf = vec![0xA5u8; outlen];
                let res = match self.eps.get_mut(&id) {
                    Some(Endpoint::Hs(h)) => do_call(|| h.read_message(&msg, &mut buf)),
                    _ => return Err("hs_read on non-handshake endpoint".into()),
                };
                self.last_outbuf = buf.clone();
                self.judge(i, &op, &id, exp, res, &buf, exp.get("payload"), false)
            },
            "set_psk" => {
                let loc = args["loc"].as_u64().ok_or("loc")? as usize;
                let key = self.ev(&args["key"])?;
                let res = match self.eps.get_mut(&id) {
                    Some(Endpoint::Hs(h)) => do_call(|| h.set_psk(loc, &key).map(|_| 0)),
                    _ => return Err("set_psk on non-handshake endpoint".into()),
                };
                let mut e2 = exp.clone();
                e2["len"] = json!(0);
                self.judge(i, &op, &id, &e2, res, &[], None, false)
            },
            "to_transport" | "to_stateless" => {
                let cause = cause_of(exp);
                let eres = exp["res"].as_str().ok_or("exp.res")?;
                let hs = match self.eps.remove(&id) {
                    Some(Endpoint::Hs(h)) => h,
                    _ => return Err("convert on non-handshake endpoint".into()),
                };
                self.out.calls += 1;
                let stateful = op == "to_transport";
                let r = catch_unwind(AssertUnwindSafe(|| {
                    if stateful {
                        hs.into_transport_mode().map(|t| Endpoint::Tr(Box::new(t)))
                    } else {
                        hs.into_stateless_transport_mode().map(|t| Endpoint::Sl(Box::new(t)))
                    }
                }));
                match r {
                    Err(_) => {
                        self.eps.insert(id.clone(), Endpoint::Dead);
                        self.viol(i, &op, "panic", eres.to_string(), "panic".into(), &cause);
                        Ok(false)
                    },
                    Ok(Ok(e)) => {
                        self.eps.insert(id.clone(), e);
                        if eres != "ok" {
                            self.viol(i, &op, "result", format!("Err{}", exp["kinds"]), "Ok".into(), &cause);
                            return Ok(false);
                        }
                        self.check_obs(i, &op, &id, &exp["obs"], &cause)?;
                        Ok(true)
                    },
                    Ok(Err(e)) => {
                        self.eps.insert(id.clone(), Endpoint::Dead);
                        let k = err_kind(&e);
                        if eres == "ok" {
                            self.viol(i, &op, "result", "Ok".into(), format!("Err({k})"), &cause);
                            return Ok(false);
                        }
                        if !kinds_allow(&exp["kinds"], &k) {
                            self.viol(i, &op, "error_kind", exp["kinds"].to_string(), k, &cause);
                        }
                        Ok(true)
                    },
                }
            },
            "t_write" | "s_write" => {
                let payload = self.ev(&args["payload"])?;
                let buflen = args["buf"].as_u64().ok_or("buf")? as usize;
                let mut buf = vec![0xA5u8; buflen];
                let res = match self.eps.get_mut(&id) {
                    Some(Endpoint::Tr(t)) => do_call(|| t.write_message(&payload, &mut buf)),
                    Some(Endpoint::Sl(t)) => {
                        let n = crate::eval::nonce_value(&args["n"])?;
                        do_call(|| t.write_message(n, &payload, &mut buf))
                    },
                    _ => return Err("transport write on wrong endpoint".into()),
                };
                self.last_outbuf = buf.clone();
                self.judge(i, &op, &id, exp, res, &buf, exp.get("out"), true)
            },
            "t_read" | "s_read" => {
                let msg = self.ev_seq(&args["msg"])?;
                let outlen = args["outlen"].as_u64().ok_or("outlen")? as usize;
                let mut buf = vec![0xA5u8; outlen];
                let res = match self.eps.get_mut(&id) {
                    Some(Endpoint::Tr(t)) => do_call(|| t.read_message(&msg, &mut buf)),
                    Some(Endpoint::Sl(t)) => {
                        let n = crate::eval::nonce_value(&args["n"])?;
                        do_call(|| t.read_message(n, &msg, &mut buf))
                    },
                    _ => return Err("transport read on wrong endpoint".into()),
                };
                self.last_outbuf = buf.clone();
                self.judge(i, &op, &id, exp, res, &buf, exp.get("payload"), false)
            },
            "rekey_out" | "rekey_in" => {
                let out = op == "rekey_out";
                let r = match self.eps.get_mut(&id) {
                    Some(Endpoint::Tr(t)) => do_call(|| {
                        if out {
                            t.rekey_outgoing()
                        } else {
                            t.rekey_incoming()
                        };
                        Ok(0)
                    }),
                    Some(Endpoint::Sl(t)) => do_call(|| {
                        if out {
                            t.rekey_outgoing()
                        } else {
                            t.rekey_incoming()
                        };
                        Ok(0)
                    }),
                    _ => return Err("rekey on wrong endpoint".into()),
                };
                let mut e2 = exp.clone();
                e2["len"] = json!(0);
                self.judge(i, &op, &id, &e2, r, &[], None, false)
            },
            "rekey_manual" => {
                let k1 = self.ev_opt(&args["k1"])?;
                let k2 = self.ev_opt(&args["k2"])?;
                let a1: Option<[u8; 32]> = k1.map(|k| k.as_slice().try_into().map_err(|_| "k1 len")).transpose()?;
                let a2: Option<[u8; 32]> = k2.map(|k| k.as_slice().try_into().map_err(|_| "k2 len")).transpose()?;
                let via = args["via"].as_str().unwrap_or("both");
                let r = match self.eps.get_mut(&id) {
                    Some(Endpoint::Tr(t)) => do_call(|| {
                        match via {
                            "single" => {
                                if let Some(k) = a1.as_ref() {
                                    t.rekey_initiator_manually(k);
                                }
                                if let Some(k) = a2.as_ref() {
                                    t.rekey_responder_manually(k);
                                }
                            },
                            _ => t.rekey_manually(a1.as_ref(), a2.as_ref()),
                        }
                        Ok(0)
                    }),
                    Some(Endpoint::Sl(t)) => do_call(|| {
                        match via {
                            "single" => {
                                if let Some(k) = a1.as_ref() {
                                    t.rekey_initiator_manually(k);
                                }
                                if let Some(k) = a2.as_ref() {
                                    t.rekey_responder_manually(k);
                                }
                            },
                            _ => t.rekey_manually(a1.as_ref(), a2.as_ref()),
                        }
                        Ok(0)
                    }),
                    _ => return Err("rekey_manual on wrong endpoint".into()),
                };
                let mut e2 = exp.clone();
                e2["len"] = json!(0);
                self.judge(i, &op, &id, &e2, r, &[], None, false)
            },
            "set_recv_nonce" => {
                let n = crate::eval::nonce_value(&args["n"])?;
                let r = match self.eps.get_mut(&id) {
                    Some(Endpoint::Tr(t)) => do_call(|| {
                        t.set_receiving_nonce(n);
                        Ok(0)
                    }),
                    _ => return Err("set_recv_nonce on wrong endpoint".into()),
                };
                let mut e2 = exp.clone();
                e2["len"] = json!(0);
                self.judge(i, &op, &id, &e2, r, &[], None, false)
            },
            "hook_set_send_nonce" => {
                let n = crate::eval::nonce_value(&args["n"])?;
                let r = match self.eps.get_mut(&id) {
                    Some(Endpoint::Tr(t)) => do_call(|| {
                        crate::hook::set_sending_nonce(t, n);
                        Ok(0)
                    }),
                    _ => return Err("hook_set_send_nonce on wrong endpoint".into()),
                };
                let mut e2 = exp.clone();
                e2["len"] = json!(0);
                self.judge(i, &op, &id, &e2, r, &[], None, false)
            },
            "raw_split" => {
                let cause = String::new();
                self.out.calls += 1;
                let got = match self.eps.get_mut(&id) {
                    Some(Endpoint::Hs(h)) => catch_unwind(AssertUnwindSafe(|| h.dangerously_get_raw_split())),
                    _ => return Err("raw_split on wrong endpoint".into()),
                };
                let (k1, k2) = match got {
                    Ok(k) => k,
                    Err(_) => {
                        self.viol(i, &op, "panic", "the two split keys".into(), "panic".into(), &cause);
                        return Ok(false);
                    },
                };
                let e1 = self.ev(&exp["k1"])?;
                let e2 = self.ev(&exp["k2"])?;
                if e1 != k1 {
                    self.viol(i, &op, "split.k1", hx(&e1), hx(&k1), &cause);
                }
                if e2 != k2 {
                    self.viol(i, &op, "split.k2", hx(&e2), hx(&k2), &cause);
                }
                Ok(true)
            },
            _ => Err(format!("unknown op {op}")),
        }
    }

    fn step_build(&mut self, i: usize, id: &str, args: &Value, exp: &Value) -> Result<bool, String> {
        let cause = cause_of(exp);
        let role = args["role"].as_str().ok_or("role")?;
        let cfg = &args["cfg"];
        let name = self.inst.name_for(id).to_string();
        // each endpoint hashes ITS OWN protocol name (in a name-mismatch scenario the model itself distinguishes the two
        // strings as the atoms "name" and "name2", bound at the start)
        if self.scn.get("name2").is_none() {
            self.bind.atoms.insert("name".into(), name.as_bytes().to_vec());
        }
        let s = self.ev_opt(&cfg["s"])?;
        let rs = self.ev_opt(&cfg["rs"])?;
        let prologue = self.ev(&cfg["prologue"])?;
        let fixed_e = self.ev_opt(&cfg["fixed_e"])?;
        let mut psks: Vec<Option<[u8; 32]>> = vec![];
        for n in 0..5 {
            let v = &cfg["psk"][n.to_string()];
            let p = self.ev_opt(v)?;
            psks.push(p.map(|k| k.as_slice().try_into().map_err(|_| "psk len")).transpose()?);
        }
        let backend = self.inst.backend_for(id);
        let log = self.log.clone();
        let seed = self.inst.seed;
        let lack = args.get("lack").and_then(|l| l.as_str()).filter(|l| *l != "none").map(|l| l.to_string());
        let twice = args.get("twice").and_then(|l| l.as_str()).map(|l| l.to_string());
        let pskloc = args.get("pskloc").and_then(|l| l.as_u64());
        let extra_psk = [0x5au8; 32];
        self.out.calls += 1;
        let rng_ctr = std::sync::Arc::new(std::sync::Mutex::new(0u64));
        self.rng_pos.insert(id.to_string(), rng_ctr.clone());
        let eres = exp["res"].as_str().ok_or("exp.res")?;
        let r = catch_unwind(AssertUnwindSafe(|| -> Result<HandshakeState, snow::Error> {
            let params: snow::params::NoiseParams = name.parse()?;
            let mut resolver = RecResolver::new(backend, id, seed, true, log);
            resolver.rng_ctr = rng_ctr;
            resolver.lack = lack;
            let mut b = Builder::with_resolver(params, Box::new(resolver));
            if let Some(k) = s.as_ref() {
                b = b.local_private_key(k)?;
            }
            if let Some(k) = rs.as_ref() {
                b = b.remote_public_key(k)?;
            }
            for (n, p) in psks.iter().enumerate() {
                if let Some(k) = p.as_ref() {
                    b = b.psk(n as u8, k)?;
                }
            }
            b = b.prologue(&prologue)?;
            // a setter called a second time / a psk at an arbitrary location (C12: builder rules)
            match twice.as_deref() {
                Some("s") => b = b.local_private_key(s.as_ref().map(|k| k.as_slice()).unwrap_or(&extra_psk))?,
                Some("rs") => b = b.remote_public_key(rs.as_ref().map(|k| k.as_slice()).unwrap_or(&extra_psk))?,
                Some("prologue") => b = b.prologue(&prologue)?,
                Some("psk") => {
                    b = b.psk(3, &extra_psk)?;
                    b = b.psk(3, &extra_psk)?;
                },
                _ => {},
            }
            if let Some(loc) = pskloc {
                b = b.psk(loc as u8, &extra_psk)?;
            }
            if let Some(k) = fixed_e.as_ref() {
                b = b.fixed_ephemeral_key_for_testing_only(k);
            }
            if role == "i" {
                b.build_initiator()
            } else {
                b.build_responder()
            }
        }));
        match r {
            Err(_) => {
                self.viol(i, "build", "panic", eres.to_string(), "panic".into(), &cause);
                Ok(false)
            },
            Ok(Ok(h)) => {
                self.eps.insert(id.to_string(), Endpoint::Hs(Box::new(h)));
                if eres == "any" {
                    return Ok(true);
                }
                if eres != "ok" {
                    self.viol(i, "build", "result", format!("Err{}", exp["kinds"]), "Ok".into(), &cause);
                    return Ok(false);
                }
                self.check_obs(i, "build", id, &exp["obs"], &cause)?;
                Ok(true)
            },
            Ok(Err(e)) => {
                let k = err_kind(&e);
                if eres == "any" {
                    return Ok(false);
                }
                if eres == "ok" {
                    self.viol(i, "build", "result", "Ok".into(), format!("Err({k})"), &cause);
                    return Ok(false);
                }
                if !kinds_allow(&exp["kinds"], &k) {
                    self.viol(i, "build", "error_kind", exp["kinds"].to_string(), k, &cause);
                }
                Ok(true)
            },
        }
    }
}

/// C06 on the observed operations of one scenario run: no (key, nonce) pair encrypts two
/// different (ad, plaintext) inputs; the reserved nonce only ever encrypts the REKEY input.
pub fn check_aead_ops(ops: &[Op]) -> Vec<(String, String)> {
    let mut seen: HashMap<(Vec<u8>, u64), (Vec<u8>, Vec<u8>)> = HashMap::new();
    let mut bad = vec![];
    for o in ops {
        if let Op::Encrypt { key, nonce, ad, pt, ep, .. } = o {
            if *nonce == u64::MAX && !(ad.is_empty() && pt.as_slice() == [0u8; 32]) {
                bad.push(("reserved_nonce_used".to_string(), format!("ep {ep} encrypt under 2^64-1, pt {} bytes", pt.len())));
            }
            let k = (key.clone(), *nonce);
            match seen.get(&k) {
                Some((a2, p2)) => {
                    if a2 != ad || p2 != pt {
                        bad.push((
                            "nonce_reuse".to_string(),
                            format!("ep {ep} key {} nonce {nonce}: two different inputs", hx(key)),
                        ));
                    }
                },
                None => {
                    seen.insert(k, (ad.clone(), pt.clone()));
                },
            }
        }
        if let Op::Decrypt { nonce, ep, .. } = o {
            if *nonce == u64::MAX {
                bad.push(("reserved_nonce_used".to_string(), format!("ep {ep} decrypt under 2^64-1")));
            }
        }
    }
    bad
}
