//! C20 (fallback half): marker resolvers whose objects carry distinguishable names / bytes.
use crate::util::{read_tlc_json, Opts};
use rand_core::{CryptoRng, RngCore};
use serde_json::{json, Value};
use snow::params::{CipherChoice, DHChoice, HashChoice};
use snow::resolvers::{CryptoResolver, FallbackResolver};
use snow::types::{Cipher, Dh, Hash, Random};

struct Marker {
    tag: &'static str,
    byte: u8,
    has_kind: String,
    has_choice: String,
    has: bool,
    /// further (choice) entries of the same kind this member provides (history rows)
    also: Vec<String>,
}
impl Marker {
    fn provides(&self, kind: &str, choice: &str) -> bool {
        self.has_kind == kind && ((self.has && self.has_choice == choice) || self.also.iter().any(|c| c == choice))
    }
}
struct MRng(u8);
impl RngCore for MRng {
    fn next_u32(&mut self) -> u32 {
        0
    }
    fn next_u64(&mut self) -> u64 {
        0
    }
    fn fill_bytes(&mut self, d: &mut [u8]) {
        d.fill(self.0)
    }
    fn try_fill_bytes(&mut self, d: &mut [u8]) -> Result<(), rand_core::Error> {
        d.fill(self.0);
        Ok(())
    }
}
impl CryptoRng for MRng {}
impl Random for MRng {}
struct MDh(&'static str);
impl Dh for MDh {
    fn name(&self) -> &'static str {
        self.0
    }
    fn pub_len(&self) -> usize {
        32
    }
    fn priv_len(&self) -> usize {
        32
    }
    fn set(&mut self, _: &[u8]) {}
    fn generate(&mut self, _: &mut dyn Random) {}
    fn pubkey(&self) -> &[u8] {
        &[]
    }
    fn privkey(&self) -> &[u8] {
        &[]
    }
    fn dh(&self, _: &[u8], _: &mut [u8]) -> Result<(), snow::Error> {
        Ok(())
    }
}
struct MCipher(&'static str);
impl Cipher for MCipher {
    fn name(&self) -> &'static str {
        self.0
    }
    fn set(&mut self, _: &[u8; 32]) {}
    fn encrypt(&self, _: u64, _: &[u8], _: &[u8], _: &mut [u8]) -> usize {
        0
    }
    fn decrypt(&self, _: u64, _: &[u8], _: &[u8], _: &mut [u8]) -> Result<usize, snow::Error> {
        Ok(0)
    }
}
struct MHash(&'static str);
impl Hash for MHash {
    fn name(&self) -> &'static str {
        self.0
    }
    fn block_len(&self) -> usize {
        64
    }
    fn hash_len(&self) -> usize {
        32
    }
    fn reset(&mut self) {}
    fn input(&mut self, _: &[u8]) {}
    fn result(&mut self, _: &mut [u8]) {}
}

#[cfg(feature = "hfs")]
struct MKem(&'static str);
#[cfg(feature = "hfs")]
impl snow::types::Kem for MKem {
    fn name(&self) -> &'static str {
        self.0
    }
    fn pub_len(&self) -> usize {
        0
    }
    fn ciphertext_len(&self) -> usize {
        0
    }
    fn shared_secret_len(&self) -> usize {
        0
    }
    fn generate(&mut self, _: &mut dyn Random) {}
    fn pubkey(&self) -> &[u8] {
        &[]
    }
    fn encapsulate(&self, _: &[u8], _: &mut [u8], _: &mut [u8]) -> Result<(usize, usize), snow::Error> {
        Ok((0, 0))
    }
    fn decapsulate(&self, _: &[u8], _: &mut [u8]) -> Result<usize, snow::Error> {
        Ok(0)
    }
}

fn dh_name(c: &DHChoice) -> &'static str {
    match c {
        DHChoice::Curve25519 => "25519",
        DHChoice::Curve448 => "448",
        DHChoice::P256 => "P256",
    }
}
fn cipher_name(c: &CipherChoice) -> &'static str {
    match c {
        CipherChoice::ChaChaPoly => "ChaChaPoly",
        CipherChoice::XChaChaPoly => "XChaChaPoly",
        CipherChoice::AESGCM => "AESGCM",
    }
}
fn hash_name(c: &HashChoice) -> &'static str {
    match c {
        HashChoice::SHA256 => "SHA256",
        HashChoice::SHA512 => "SHA512",
        HashChoice::Blake2s => "BLAKE2s",
        HashChoice::Blake2b => "BLAKE2b",
    }
}

impl CryptoResolver for Marker {
    fn resolve_rng(&self) -> Option<Box<dyn Random>> {
        if self.has && self.has_kind == "rng" {
            Some(Box::new(MRng(self.byte)))
        } else {
            None
        }
    }
    fn resolve_dh(&self, c: &DHChoice) -> Option<Box<dyn Dh>> {
        if self.provides("dh", dh_name(c)) {
            Some(Box::new(MDh(self.tag)))
        } else {
            None
        }
    }
    fn resolve_hash(&self, c: &HashChoice) -> Option<Box<dyn Hash>> {
        if self.provides("hash", hash_name(c)) {
            Some(Box::new(MHash(self.tag)))
        } else {
            None
        }
    }
    fn resolve_cipher(&self, c: &CipherChoice) -> Option<Box<dyn Cipher>> {
        if self.provides("cipher", cipher_name(c)) {
            Some(Box::new(MCipher(self.tag)))
        } else {
            None
        }
    }
    #[cfg(feature = "hfs")]
    fn resolve_kem(&self, _: &snow::params::KemChoice) -> Option<Box<dyn snow::types::Kem>> {
        if self.provides("kem", "Kyber1024") {
            Some(Box::new(MKem(self.tag)))
        } else {
            None
        }
    }
}

pub fn main(o: &Opts) -> Result<i32, String> {
    let rows = read_tlc_json(o.req("table")?, "FBK")?;
    let mut viol: Vec<Value> = vec![];
    let mut n = 0;
    for r in &rows {
        let kind = r["kind"].as_str().ok_or("kind")?;
        let choice = r["choice"].as_str().ok_or("choice")?;
        let mk = |tag: &'static str, byte: u8, has: bool| Marker {
            tag,
            byte,
            has_kind: kind.to_string(),
            has_choice: choice.to_string(),
            has,
            also: vec![],
        };
        let fr = FallbackResolver::new(
            Box::new(mk("preferred", 0x11, r["preferred_has"].as_bool().unwrap_or(false))),
            Box::new(mk("fallback", 0x22, r["fallback_has"].as_bool().unwrap_or(false))),
        );
        let got: String = match kind {
            "rng" => match fr.resolve_rng() {
                None => "none".into(),
                Some(mut g) => {
                    let mut b = [0u8; 4];
                    g.fill_bytes(&mut b);
                    if b[0] == 0x11 { "preferred".into() } else { "fallback".into() }
                },
            },
            "dh" => {
                let c = match choice {
                    "25519" => DHChoice::Curve25519,
                    "448" => DHChoice::Curve448,
                    _ => DHChoice::P256,
                };
                fr.resolve_dh(&c).map(|d| d.name().to_string()).unwrap_or("none".into())
            },
            "cipher" => {
                let c = match choice {
                    "ChaChaPoly" => CipherChoice::ChaChaPoly,
                    "XChaChaPoly" => CipherChoice::XChaChaPoly,
                    _ => CipherChoice::AESGCM,
                };
                fr.resolve_cipher(&c).map(|d| d.name().to_string()).unwrap_or("none".into())
            },
            "hash" => {
                let c = match choice {
                    "SHA256" => HashChoice::SHA256,
                    "SHA512" => HashChoice::SHA512,
                    "BLAKE2s" => HashChoice::Blake2s,
                    _ => HashChoice::Blake2b,
                };
                fr.resolve_hash(&c).map(|d| d.name().to_string()).unwrap_or("none".into())
            },
            #[cfg(feature = "hfs")]
            "kem" => fr.resolve_kem(&snow::params::KemChoice::Kyber1024).map(|d| d.name().to_string()).unwrap_or("none".into()),
            _ => return Err("kind".into()),
        };
        n += 1;
        let want = r["expect"].as_str().unwrap_or("");
        if got != want {
            viol.push(json!({"op": "resolve", "what": format!("fallback_{kind}"), "cause": "", "expected": want, "observed": got,
                             "name": format!("{kind}:{choice} preferred_has={} fallback_has={}", r["preferred_has"], r["fallback_has"]), "row": r}));
        }
    }
    // history rows: two queries on the SAME resolver object
    let query = |fr: &FallbackResolver, kind: &str, choice: &str| -> String {
        match kind {
            "dh" => {
                let c = match choice {
                    "25519" => DHChoice::Curve25519,
                    "448" => DHChoice::Curve448,
                    _ => DHChoice::P256,
                };
                fr.resolve_dh(&c).map(|d| d.name().to_string()).unwrap_or("none".into())
            },
            "cipher" => {
                let c = match choice {
                    "ChaChaPoly" => CipherChoice::ChaChaPoly,
                    "XChaChaPoly" => CipherChoice::XChaChaPoly,
                    _ => CipherChoice::AESGCM,
                };
                fr.resolve_cipher(&c).map(|d| d.name().to_string()).unwrap_or("none".into())
            },
            _ => {
                let c = match choice {
                    "SHA256" => HashChoice::SHA256,
                    "SHA512" => HashChoice::SHA512,
                    "BLAKE2s" => HashChoice::Blake2s,
                    _ => HashChoice::Blake2b,
                };
                fr.resolve_hash(&c).map(|d| d.name().to_string()).unwrap_or("none".into())
            },
        }
    };
    for r in read_tlc_json(o.req("table")?, "FBK2")? {
        let kind = r["kind"].as_str().ok_or("kind")?.to_string();
        let (f1, f2) = (&r["first"], &r["second"]);
        let provides = |member: &str| -> Vec<String> {
            let mut v = vec![];
            for q in [f1, f2] {
                if q[format!("{member}_has")].as_bool() == Some(true) {
                    v.push(q["choice"].as_str().unwrap_or("").to_string());
                }
            }
            v
        };
        let mk = |tag: &'static str, byte: u8, also: Vec<String>| Marker {
            tag,
            byte,
            has_kind: kind.clone(),
            has_choice: String::new(),
            has: false,
            also,
        };
        let fr = FallbackResolver::new(Box::new(mk("preferred", 0x11, provides("preferred"))), Box::new(mk("fallback", 0x22, provides("fallback"))));
        for q in [f1, f2] {
            let got = query(&fr, &kind, q["choice"].as_str().unwrap_or(""));
            n += 1;
            let want = q["expect"].as_str().unwrap_or("");
            if got != want {
                viol.push(json!({"op": "resolve", "what": format!("fallback_{kind}_after_history"), "cause": "", "expected": want, "observed": got,
                                 "name": format!("{kind}: {} then {}", f1["choice"], f2["choice"]), "row": r}));
                break;
            }
        }
    }
    let res = json!({"rows": n, "violations": viol, "samples": rows.iter().take(3).collect::<Vec<_>>()});
    if let Some(p) = o.get("result") {
        std::fs::write(p, serde_json::to_vec_pretty(&res).unwrap()).map_err(|e| e.to_string())?;
    }
    println!("{}", json!({"rows": n, "violations": res["violations"].as_array().unwrap().len()}));
    Ok(if res["violations"].as_array().unwrap().is_empty() { 0 } else { 1 })
}
