//! C10 random driver: protocol-agnostic sequences of public calls with boundary-biased random
//! lengths, arbitrary message bytes, key lengths 0..200, conversions at any time. The only
//! oracle is the totality of the model: every call returns Ok or Err — a panic caught at the
//! call boundary or a stalled worker is what no action of the specification explains.

use crate::util::{read_tlc_json, Opts, Rng};
use serde_json::{json, Value};
use snow::{Builder, HandshakeState, StatelessTransportState, TransportState};
use std::panic::{catch_unwind, AssertUnwindSafe};
use std::sync::atomic::{AtomicU64, AtomicUsize, Ordering};
use std::sync::Mutex;

const LENS: [usize; 26] = [
    0, 1, 2, 15, 16, 17, 31, 32, 33, 47, 48, 49, 63, 64, 65, 66, 80, 81, 96, 97, 65519, 65520, 65534, 65535, 65536, 66000,
];

fn rlen(r: &mut Rng) -> usize {
    match r.below(10) {
        0..=5 => LENS[r.below(LENS.len() as u64) as usize],
        6..=8 => r.below(200) as usize,
        _ => r.below(66001) as usize,
    }
}
fn rbytes(r: &mut Rng, n: usize) -> Vec<u8> {
    let mut v = vec![0u8; n];
    let mut i = 0;
    while i < n {
        let x = r.next().to_le_bytes();
        let k = (n - i).min(8);
        v[i..i + k].copy_from_slice(&x[..k]);
        i += k;
    }
    v
}

enum Ep {
    Hs(Box<HandshakeState>),
    Tr(Box<TransportState>),
    Sl(Box<StatelessTransportState>),
    Gone,
}

pub struct SessionReport {
    pub calls: usize,
    pub panics: Vec<String>,
}

fn guarded<T, F: FnOnce() -> T>(what: &str, rep: &mut SessionReport, f: F) -> Option<T> {
    rep.calls += 1;
    match catch_unwind(AssertUnwindSafe(f)) {
        Ok(v) => Some(v),
        Err(p) => {
            let msg = if let Some(s) = p.downcast_ref::<&str>() {
                s.to_string()
            } else if let Some(s) = p.downcast_ref::<String>() {
                s.clone()
            } else {
                "panic".into()
            };
            rep.panics.push(format!("{what}: {msg}"));
            None
        },
    }
}

pub fn run_session(names: &[String], seed: u64, idx: u64, progress: &AtomicU64) -> SessionReport {
    let mut r = Rng(seed.wrapping_mul(0x9E37_79B9).wrapping_add(idx.wrapping_mul(0x85EB_CA6B)) ^ 0xF022);
    let mut rep = SessionReport { calls: 0, panics: vec![] };
    let name = match r.below(20) {
        0 => String::from_utf8_lossy(&rbytes(&mut r, 40)).to_string(),
        1 => format!("{}é", names[r.below(names.len() as u64) as usize]),
        _ => names[r.below(names.len() as u64) as usize].clone(),
    };
    let wild_keys = r.below(5) == 0;
    // most sessions are configured consistently (all keys, same psk and prologue) so that they get far
    let sane = !wild_keys && r.below(10) < 8;
    let dh = if name.contains("_P256_") { crate::prims::DhAlg::P256 } else { crate::prims::DhAlg::X25519 };
    let sks = [rbytes(&mut r, 32), rbytes(&mut r, 32)];
    let pks: Vec<Vec<u8>> = sks.iter().map(|k| crate::prims::dh_pub(dh, k).unwrap_or_else(|| vec![1u8; 32])).collect();
    let common_psk = rbytes(&mut r, 32);
    let cpl = rlen(&mut r).min(400);
    let common_plog = rbytes(&mut r, cpl);
    let mut eps: Vec<Ep> = vec![];
    let mut statics: Vec<Vec<u8>> = vec![];
    for role in 0..2 {
        let klen = if wild_keys { r.below(201) as usize } else { 32 };
        let sk = if sane { sks[role].clone() } else { rbytes(&mut r, klen) };
        let rklen = if wild_keys { r.below(201) as usize } else if name.contains("P256") { 65 } else { 32 };
        let rk = if sane { pks[1 - role].clone() } else { rbytes(&mut r, rklen) };
        let psk = if sane { common_psk.clone() } else { rbytes(&mut r, 32) };
        let pl = rlen(&mut r).min(400);
        let plog = if sane { common_plog.clone() } else { rbytes(&mut r, pl) };
        let fl = if wild_keys { r.below(201) as usize } else { 32 };
        let fixed = rbytes(&mut r, fl);
        let with_s = sane || r.below(8) != 0;
        let with_rs = sane || r.below(3) != 0;
        let with_fixed = r.below(6) == 0;
        let psk_mask = if sane { 31 } else { r.below(32) };
        let psk_arr: [u8; 32] = psk.as_slice().try_into().unwrap();
        let built = guarded("build", &mut rep, || -> Result<HandshakeState, snow::Error> {
            let params: snow::params::NoiseParams = name.parse()?;
            let mut b = Builder::new(params);
            if with_s {
                b = b.local_private_key(&sk)?;
            }
            if with_rs {
                b = b.remote_public_key(&rk)?;
            }
            for n in 0..5u8 {
                if psk_mask & (1 << n) != 0 {
                    b = b.psk(n, &psk_arr)?;
                }
            }
            b = b.prologue(&plog)?;
            if with_fixed {
                b = b.fixed_ephemeral_key_for_testing_only(&fixed);
            }
            if role == 0 {
                b.build_initiator()
            } else {
                b.build_responder()
            }
        });
        statics.push(sk);
        match built {
            Some(Ok(h)) => eps.push(Ep::Hs(Box::new(h))),
            _ => eps.push(Ep::Gone),
        }
        progress.fetch_add(1, Ordering::Relaxed);
    }
    let mut wire: [Vec<u8>; 2] = [vec![], vec![]]; // wire[i]: last message written BY i
    let ncalls = 10 + r.below(40);
    for _ in 0..ncalls {
        progress.fetch_add(1, Ordering::Relaxed);
        let who = r.below(2) as usize;
        let other = 1 - who;
        let action = r.below(12);
        // choose the input message: genuine, altered, garbage
        let msg: Vec<u8> = match r.below(6) {
            0 | 1 | 2 => wire[other].clone(),
            3 => {
                let mut m = wire[other].clone();
                if !m.is_empty() {
                    let i = r.below(m.len() as u64) as usize;
                    m[i] ^= 1 << r.below(8);
                }
                m
            },
            4 => {
                let mut m = wire[other].clone();
                let l = r.below(m.len() as u64 + 1) as usize;
                m.truncate(l);
                m
            },
            _ => {
                let gl = rlen(&mut r);
                rbytes(&mut r, gl)
            },
        };
        let plen = rlen(&mut r);
        let pl2 = if r.below(3) == 0 { plen } else { plen.min(64) };
        let payload = rbytes(&mut r, pl2);
        let ol = if r.below(3) == 0 { rlen(&mut r) } else { 70000 };
        let mut out = vec![0u8; ol];
        let nonce = match r.below(6) {
            0 => u64::MAX,
            1 => u64::MAX - 1,
            2 => 0,
            3 => 1u64 << 32,
            _ => r.next(),
        };
        let ep = std::mem::replace(&mut eps[who], Ep::Gone);
        // early conversion consumes the session: do it only now and then
        let action = match &ep {
            Ep::Hs(h) if action >= 10 && !h.is_handshake_finished() && r.below(8) != 0 => r.below(8),
            Ep::Hs(h) if action < 8 && h.is_handshake_finished() && r.below(3) != 0 => 10 + r.below(2),
            _ => action,
        };
        // steer: mostly let the party whose turn it is write and the other read genuine data
        let action = match &ep {
            Ep::Hs(h) if r.below(3) != 0 && action < 8 => if h.is_my_turn() { 0 } else { 4 },
            _ => action,
        };
        eps[who] = match ep {
            Ep::Gone => Ep::Gone,
            Ep::Hs(mut h) => match action {
                0..=3 => {
                    if let Some(Ok(n)) = guarded("hs.write_message", &mut rep, || h.write_message(&payload, &mut out)) {
                        if n <= out.len() {
                            wire[who] = out[..n].to_vec();
                        }
                    }
                    Ep::Hs(h)
                },
                4..=7 => {
                    guarded("hs.read_message", &mut rep, || h.read_message(&msg, &mut out));
                    Ep::Hs(h)
                },
                8 => {
                    let loc = if r.below(2) == 0 { r.below(12) as usize } else { r.next() as usize };
                    let kl = if r.below(2) == 0 { 32 } else { r.below(70) as usize };
                    let key = rbytes(&mut r, kl);
                    guarded("hs.set_psk", &mut rep, || h.set_psk(loc, &key));
                    Ep::Hs(h)
                },
                9 => {
                    guarded("hs.getters", &mut rep, || {
                        let _ = (h.is_my_turn(), h.is_handshake_finished(), h.is_initiator(), h.was_write_payload_encrypted());
                        let _ = h.get_handshake_hash().len();
                        let _ = h.get_remote_static().map(|x| x.len());
                        let _ = h.dangerously_get_raw_split();
                    });
                    Ep::Hs(h)
                },
                10 => match guarded("hs.into_transport_mode", &mut rep, || h.into_transport_mode()) {
                    Some(Ok(t)) => Ep::Tr(Box::new(t)),
                    _ => Ep::Gone,
                },
                _ => match guarded("hs.into_stateless_transport_mode", &mut rep, || h.into_stateless_transport_mode()) {
                    Some(Ok(t)) => Ep::Sl(Box::new(t)),
                    _ => Ep::Gone,
                },
            },
            Ep::Tr(mut t) => {
                match action {
                    0..=3 => {
                        if let Some(Ok(n)) = guarded("tr.write_message", &mut rep, || t.write_message(&payload, &mut out)) {
                            if n <= out.len() {
                                wire[who] = out[..n].to_vec();
                            }
                        }
                    },
                    4..=7 => {
                        guarded("tr.read_message", &mut rep, || t.read_message(&msg, &mut out));
                    },
                    8 => {
                        guarded("tr.set_receiving_nonce", &mut rep, || t.set_receiving_nonce(nonce));
                    },
                    9 => {
                        guarded("tr.rekey", &mut rep, || {
                            t.rekey_outgoing();
                            t.rekey_incoming();
                            let k: [u8; 32] = [7u8; 32];
                            t.rekey_manually(Some(&k), None);
                            t.rekey_manually(None, Some(&k));
                        });
                    },
                    10 => {
                        guarded("tr.hook_set_sending_nonce", &mut rep, || crate::hook::set_sending_nonce(&mut t, nonce));
                    },
                    _ => {
                        guarded("tr.getters", &mut rep, || {
                            let _ = (t.sending_nonce(), t.receiving_nonce(), t.is_initiator());
                            let _ = t.get_remote_static().map(|x| x.len());
                        });
                    },
                }
                Ep::Tr(t)
            },
            Ep::Sl(mut t) => {
                match action {
                    0..=4 => {
                        if let Some(Ok(n)) = guarded("sl.write_message", &mut rep, || t.write_message(nonce, &payload, &mut out)) {
                            if n <= out.len() {
                                wire[who] = out[..n].to_vec();
                            }
                        }
                    },
                    5..=9 => {
                        guarded("sl.read_message", &mut rep, || t.read_message(nonce, &msg, &mut out));
                    },
                    10 => {
                        guarded("sl.rekey", &mut rep, || {
                            t.rekey_outgoing();
                            t.rekey_incoming();
                            let k: [u8; 32] = [9u8; 32];
                            t.rekey_manually(Some(&k), Some(&k));
                        });
                    },
                    _ => {
                        guarded("sl.getters", &mut rep, || {
                            let _ = t.is_initiator();
                            let _ = t.get_remote_static().map(|x| x.len());
                        });
                    },
                }
                Ep::Sl(t)
            },
        };
    }
    let _ = statics;
    rep
}

pub fn main(o: &Opts) -> Result<i32, String> {
    let names: Vec<String> = read_tlc_json(o.req("names")?, "NAME")?
        .iter()
        .filter_map(|n| n["name"].as_str().map(|s| s.to_string()))
        .collect();
    let seed = o.num("seed", 1);
    let sessions = o.num("sessions", 2000);
    let threads = o.num("threads", 12) as usize;
    let replay_dir = o.get("replay-dir").unwrap_or("replays").to_string();
    if let Some(one) = o.get("session") {
        let idx: u64 = one.parse().map_err(|_| "session")?;
        let p = AtomicU64::new(0);
        let rep = run_session(&names, seed, idx, &p);
        for x in &rep.panics {
            println!("violation: {x}");
        }
        return Ok(if rep.panics.is_empty() { 0 } else { 1 });
    }
    let next = AtomicUsize::new(0);
    let calls = AtomicU64::new(0);
    let found: Mutex<Vec<(u64, String)>> = Mutex::new(vec![]);
    let progress: Vec<AtomicU64> = (0..threads).map(|_| AtomicU64::new(0)).collect();
    let current: Vec<AtomicU64> = (0..threads).map(|_| AtomicU64::new(u64::MAX)).collect();
    let done = AtomicUsize::new(0);
    let mut hang: Option<u64> = None;
    std::thread::scope(|s| {
        for t in 0..threads {
            let (next, calls, found, progress, current, done, names) = (&next, &calls, &found, &progress, &current, &done, &names);
            s.spawn(move || {
                loop {
                    let i = next.fetch_add(1, Ordering::SeqCst) as u64;
                    if i >= sessions {
                        break;
                    }
                    current[t].store(i, Ordering::SeqCst);
                    let rep = run_session(names, seed, i, &progress[t]);
                    calls.fetch_add(rep.calls as u64, Ordering::Relaxed);
                    for p in rep.panics {
                        found.lock().unwrap().push((i, p));
                    }
                }
                current[t].store(u64::MAX, Ordering::SeqCst);
                done.fetch_add(1, Ordering::SeqCst);
            });
        }
        // watchdog: a worker that makes no progress for 30 s on the same session is reported as a hang
        let mut last: Vec<(u64, std::time::Instant)> = (0..threads).map(|_| (0, std::time::Instant::now())).collect();
        while done.load(Ordering::SeqCst) < threads {
            std::thread::sleep(std::time::Duration::from_millis(200));
            for t in 0..threads {
                let p = progress[t].load(Ordering::Relaxed);
                if p != last[t].0 {
                    last[t] = (p, std::time::Instant::now());
                } else if current[t].load(Ordering::SeqCst) != u64::MAX && last[t].1.elapsed().as_secs() > 30 {
                    hang = Some(current[t].load(Ordering::SeqCst));
                }
            }
            if hang.is_some() {
                break;
            }
        }
        if let Some(h) = hang {
            // cannot join a stalled worker: report and leave
            let path = format!("{replay_dir}/C10/fuzz-hang-{seed}-{h}.json");
            std::fs::create_dir_all(format!("{replay_dir}/C10")).ok();
            std::fs::write(&path, json!({"property":"C10","kind":"fuzz","seed":seed,"session":h,"what":"no progress for 30 s","hfs":cfg!(feature = "hfs")}).to_string()).ok();
            println!("{}", json!({"sessions": sessions, "hang": h, "replay": path}));
            std::process::exit(1);
        }
    });
    let found = found.into_inner().unwrap();
    std::fs::create_dir_all(format!("{replay_dir}/C10")).ok();
    let mut viols: Vec<Value> = vec![];
    let mut seen = std::collections::HashSet::new();
    for (i, p) in &found {
        let sig: String = p.chars().take(60).collect();
        if !seen.insert(sig) || viols.len() >= 8 {
            continue;
        }
        let path = format!("{replay_dir}/C10/fuzz-{seed}-{i}.json");
        std::fs::write(&path, json!({"property":"C10","kind":"fuzz","seed":seed,"session":i,"what":p,"hfs":cfg!(feature = "hfs")}).to_string())
            .map_err(|e| e.to_string())?;
        viols.push(json!({"op": p.split(':').next().unwrap_or(""), "what": "panic", "cause": "", "expected": "Ok or Err",
                          "observed": p, "replay": path, "name": format!("fuzz session {i}")}));
    }
    let res = json!({"sessions": sessions, "calls": calls.load(Ordering::Relaxed), "panics_total": found.len(), "violations": viols});
    if let Some(p) = o.get("result") {
        std::fs::write(p, serde_json::to_vec_pretty(&res).unwrap()).map_err(|e| e.to_string())?;
    }
    println!("{}", json!({"sessions": sessions, "calls": res["calls"], "panics": found.len()}));
    Ok(if found.is_empty() { 0 } else { 1 })
}
