//! The one verification hook in snow (cargo feature `verif-hooks`).
use snow::TransportState;

pub fn set_sending_nonce(t: &mut TransportState, n: u64) {
    t.verif_set_sending_nonce(n);
}
