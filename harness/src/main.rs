//! snowverif — Rust side of the model-based verification of snow.
//! No protocol logic lives here: TLC computes scenarios and expectations (spec/*.tla);
//! this binary executes them against the real code, evaluates terms to bytes with
//! independent primitives, records traces for TLC to validate, and compares.

mod anchor;
mod eval;
mod exec;
mod fallback;
mod fuzz;
mod hook;
mod names;
mod primcheck;
mod prims;
mod replay;
mod trace;
mod resolver;
mod util;

use std::process::exit;

fn usage() -> ! {
    eprintln!(
        "usage: snowverif <cmd> [--key value ...]\n\
         cmds: selfcheck | anchor | replay | one"
    );
    exit(2)
}

fn main() {
    // panics of the code under test are data (caught per call); silence the default hook
    // for caught panics but keep a marker for harness panics.
    std::panic::set_hook(Box::new(|_| {}));
    let args: Vec<String> = std::env::args().collect();
    if args.len() < 2 {
        usage();
    }
    let opts = util::Opts::parse(&args[2..]);
    let r = match args[1].as_str() {
        "selfcheck" => prims::self_check().map(|_| {
            println!("primitive layer self-check ok");
            0
        }),
        "anchor" => anchor::main(&opts),
        "replay" => replay::main(&opts),
        "one" => replay::one(&opts),
        "names" => names::main(&opts),
        "fallback" => fallback::main(&opts),
        "fuzz" => fuzz::main(&opts),
        "prims" => primcheck::main(&opts),
        "trace" => trace::main(&opts),
        _ => usage(),
    };
    match r {
        Ok(code) => exit(code),
        Err(e) => {
            eprintln!("TOOL-ERROR: {e}");
            exit(2)
        },
    }
}
