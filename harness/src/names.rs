//! C13 drivers. `names` parses strings with snow and records the outcome for TLC to judge:
//!  * every name of the TLC-enumerated language (and TLC-made token edits), and
//!  * GENERIC character-level edits of those (the harness knows no grammar).
use crate::util::{read_tlc_json, Opts, Rng};
use serde_json::{json, Value};
use snow::params::{CipherChoice, DHChoice, HandshakeModifier, HashChoice, NoiseParams};
use std::io::Write;
use std::panic::{catch_unwind, AssertUnwindSafe};

fn record(s: &str) -> Value {
    let r = catch_unwind(AssertUnwindSafe(|| s.parse::<NoiseParams>()));
    match r {
        Err(_) => json!({"s": s, "ok": false, "err": "panic", "pat": "", "mods": [], "dh": "", "kem": "", "cipher": "", "hash": "", "verbatim": false}),
        Ok(Err(e)) => json!({"s": s, "ok": false, "err": format!("{:?}", e), "pat": "", "mods": [], "dh": "", "kem": "", "cipher": "", "hash": "", "verbatim": false}),
        Ok(Ok(p)) => {
            let mods: Vec<Value> = p
                .handshake
                .modifiers
                .list
                .iter()
                .map(|m| match m {
                    HandshakeModifier::Psk(n) => json!({"kind": "psk", "n": n}),
                    HandshakeModifier::Fallback => json!({"kind": "fallback", "n": 0}),
                    #[cfg(feature = "hfs")]
                    HandshakeModifier::Hfs => json!({"kind": "hfs", "n": 0}),
                })
                .collect();
            let dh = match p.dh {
                DHChoice::Curve25519 => "25519",
                DHChoice::Curve448 => "448",
                DHChoice::P256 => "P256",
            };
            let cipher = match p.cipher {
                CipherChoice::ChaChaPoly => "ChaChaPoly",
                CipherChoice::XChaChaPoly => "XChaChaPoly",
                CipherChoice::AESGCM => "AESGCM",
            };
            let hash = match p.hash {
                HashChoice::SHA256 => "SHA256",
                HashChoice::SHA512 => "SHA512",
                HashChoice::Blake2s => "BLAKE2s",
                HashChoice::Blake2b => "BLAKE2b",
            };
            #[cfg(feature = "hfs")]
            let kem = match p.kem {
                Some(snow::params::KemChoice::Kyber1024) => "Kyber1024",
                None => "",
            };
            #[cfg(not(feature = "hfs"))]
            let kem = "";
            json!({"s": s, "ok": true, "err": "", "pat": p.handshake.pattern.as_str(), "mods": mods, "dh": dh, "kem": kem,
                   "cipher": cipher, "hash": hash, "verbatim": p.name == s})
        },
    }
}

const INSERTS: &[&str] = &[
    "_", "+", "0", "1", "9", "k", "K", "N", "X", "p", "s", "psk", "psk1", "fallback", " ", "é", "€", "\u{1F600}", "\t", "-", ".", "/",
    "a", "Z", "2", "5", "S", "B", "4294967296", "18446744073709551616", "00000000001", "255", "256", "+psk0", "+psk00", "+psk01", "+psk1",
    "+psk001", "+fallback", "+", "psk+", "hfs", "+hfs", "hfs+", "+Kyber1024", "Kyber1024", "+Kyber512", "Kyber",
];

pub fn main(o: &Opts) -> Result<i32, String> {
    let names = read_tlc_json(o.req("names")?, "NAME")?;
    let seed = o.num("seed", 1);
    let nseeds = o.num("seeds", 40) as usize; // how many names get the full single-edit treatment
    let nrandom = o.num("random", 2000) as usize;
    let out = o.req("out")?;
    let mut f = std::io::BufWriter::new(std::fs::File::create(out).map_err(|e| e.to_string())?);
    let mut n = 0usize;
    let mut emit = |s: &str, f: &mut std::io::BufWriter<std::fs::File>| -> Result<(), String> {
        let rec = record(s);
        writeln!(f, "{}", rec).map_err(|e| e.to_string())?;
        n += 1;
        Ok(())
    };
    // (1) the whole enumerated language
    if !o.flag("skip-language") {
        for nm in &names {
            emit(nm["name"].as_str().unwrap_or(""), &mut f)?;
        }
    }
    // extra strings supplied by TLC (token-level edits), one JSON string per line
    if let Some(p) = o.get("extra") {
        for v in read_tlc_json(p, "STR")? {
            if let Some(s) = v.as_str() {
                emit(s, &mut f)?;
            }
        }
    }
    // (2) generic single edits of seeded names
    let mut rng = Rng(seed ^ 0xC13);
    for _ in 0..nseeds {
        let base = names[rng.below(names.len() as u64) as usize]["name"].as_str().unwrap_or("").to_string();
        let chars: Vec<char> = base.chars().collect();
        for i in 0..=chars.len() {
            // insert
            for ins in INSERTS {
                let s: String = chars[..i].iter().collect::<String>() + ins + &chars[i..].iter().collect::<String>();
                emit(&s, &mut f)?;
            }
            if i < chars.len() {
                // delete
                let s: String = chars[..i].iter().chain(chars[i + 1..].iter()).collect();
                emit(&s, &mut f)?;
                // duplicate
                let s: String = chars[..=i].iter().chain(chars[i..].iter()).collect();
                emit(&s, &mut f)?;
                // case flip
                let c = chars[i];
                let fl = if c.is_ascii_lowercase() { c.to_ascii_uppercase() } else { c.to_ascii_lowercase() };
                if fl != c {
                    let mut v = chars.clone();
                    v[i] = fl;
                    emit(&v.iter().collect::<String>(), &mut f)?;
                }
                // replace
                for rep in ["_", "+", "0", "x", "é"] {
                    let s: String = chars[..i].iter().collect::<String>() + rep + &chars[i + 1..].iter().collect::<String>();
                    emit(&s, &mut f)?;
                }
            }
        }
        // swap adjacent fields, drop a field, repeat a field
        let parts: Vec<&str> = base.split('_').collect();
        for i in 0..parts.len() {
            let mut v = parts.clone();
            v.remove(i);
            emit(&v.join("_"), &mut f)?;
            let mut v = parts.clone();
            v.insert(i, parts[i]);
            emit(&v.join("_"), &mut f)?;
            if i + 1 < parts.len() {
                let mut v = parts.clone();
                v.swap(i, i + 1);
                emit(&v.join("_"), &mut f)?;
            }
        }
    }
    // (3) random strings over a small alphabet that makes near-misses likely
    let alpha: Vec<&str> = vec![
        "Noise", "_", "+", "N", "K", "X", "I", "1", "psk", "0", "2", "3", "fallback", "25519", "448", "P256", "ChaChaPoly", "AESGCM",
        "XChaChaPoly", "SHA256", "SHA512", "BLAKE2s", "BLAKE2b", "hfs", "é", "", "a", "Kyber1024", "+Kyber1024",
    ];
    for _ in 0..nrandom {
        let len = 1 + rng.below(12) as usize;
        let mut s = String::new();
        for _ in 0..len {
            s.push_str(alpha[rng.below(alpha.len() as u64) as usize]);
        }
        emit(&s, &mut f)?;
    }
    f.flush().map_err(|e| e.to_string())?;
    println!("{}", json!({"strings": n}));
    Ok(0)
}
