//! C18: the public trait methods of the objects every built-in resolver returns, compared with the
//! evaluator's expansion of the specification's terms over the raw primitive crates.
use crate::eval::{draw_bytes, Arena, Bindings, Evaluator, PrimSet};
use crate::prims::{CipherAlg, DhAlg, HashAlg};
use crate::util::{read_tlc_json, Opts};
use rand_core::{CryptoRng, RngCore};
use serde_json::{json, Value};
use snow::params::{CipherChoice, DHChoice, HashChoice};
use snow::resolvers::{CryptoResolver, DefaultResolver, RingResolver};
use snow::types::Random;
use std::panic::{catch_unwind, AssertUnwindSafe};

/// deterministic byte stream (32-byte block j = draw_bytes(seed, "G", j, 32)); `k` is the position in bytes
struct DetRng {
    seed: u64,
    k: u64,
}
fn stream_bytes(seed: u64, from: u64, to: u64) -> Vec<u8> {
    (from..to).map(|p| draw_bytes(seed, "G", p / 32, 32)[(p % 32) as usize]).collect()
}
impl RngCore for DetRng {
    fn next_u32(&mut self) -> u32 {
        0
    }
    fn next_u64(&mut self) -> u64 {
        0
    }
    fn fill_bytes(&mut self, d: &mut [u8]) {
        d.copy_from_slice(&stream_bytes(self.seed, self.k, self.k + d.len() as u64));
        self.k += d.len() as u64;
    }
    fn try_fill_bytes(&mut self, d: &mut [u8]) -> Result<(), rand_core::Error> {
        self.fill_bytes(d);
        Ok(())
    }
}
impl CryptoRng for DetRng {}
impl Random for DetRng {}

fn hx(b: &[u8]) -> String {
    if b.len() <= 40 {
        hex::encode(b)
    } else {
        format!("{}..({} bytes)", hex::encode(&b[..20]), b.len())
    }
}

pub fn main(o: &Opts) -> Result<i32, String> {
    crate::prims::self_check()?;
    let cases = read_tlc_json(o.req("cases")?, "PRIM")?;
    let seed = o.num("seed", 1);
    let mut viols: Vec<Value> = vec![];
    let mut n_eval = 0usize;
    let mut distinct = std::collections::HashSet::new();
    let backends: Vec<(&str, Box<dyn CryptoResolver>)> =
        vec![("default", Box::new(DefaultResolver)), ("ring", Box::new(RingResolver))];
    let mut bind = Bindings::default();
    bind.seed = seed;
    for a in ["k1", "k2", "a", "b", "c"] {
        bind.atoms.insert(a.into(), crate::eval::junk_bytes(seed, &format!("prim:{a}"), 32));
    }
    let mut push = |viols: &mut Vec<Value>, backend: &str, prim: &str, case: &Value, what: &str, exp: String, got: String| {
        if viols.len() < 200 {
            viols.push(json!({"op": format!("{backend}:{prim}"), "what": what, "cause": "", "expected": exp, "observed": got,
                              "name": format!("{backend} {prim} {}", case["kind"].as_str().unwrap_or("")), "case": case,
                              "backend": backend, "prim": prim}));
        }
    };
    for (bname, res) in &backends {
        // ---- hashes: hmac, hkdf
        for (hc, ha) in [
            (HashChoice::SHA256, HashAlg::Sha256),
            (HashChoice::SHA512, HashAlg::Sha512),
            (HashChoice::Blake2s, HashAlg::Blake2s),
            (HashChoice::Blake2b, HashAlg::Blake2b),
        ] {
            let ps = PrimSet { dh: DhAlg::X25519, cipher: CipherAlg::ChaChaPoly, hash: ha };
            let mut h = match res.resolve_hash(&hc) {
                Some(h) => h,
                None => continue,
            };
            for c in cases.iter().filter(|c| matches!(c["kind"].as_str(), Some("hmac") | Some("hkdf"))) {
                let mut ar = Arena::new();
                match c["kind"].as_str().unwrap() {
                    "hmac" => {
                        let (kid, did, eid) = (ar.intern(&c["key"])?, ar.intern(&c["data"])?, ar.intern(&c["expect"])?);
                        let mut ev = Evaluator::new(ps, &bind, &ar);
                        let key = ev.eval(kid)?;
                        if key.len() > ha.block_len() {
                            continue;
                        }
                        let data = ev.eval(did)?;
                        let want = ev.eval(eid)?;
                        let mut out = vec![0u8; 64];
                        n_eval += 1;
                        distinct.insert(format!("{bname}|{}|hmac|{}|{}", ha.name(), key.len(), data.len()));
                        let r = catch_unwind(AssertUnwindSafe(|| h.hmac(&key, &data, &mut out)));
                        if r.is_err() {
                            push(&mut viols, bname, ha.name(), c, "panic", "hmac output".into(), "panic".into());
                            continue;
                        }
                        if out[..ha.hash_len()] != want[..] {
                            push(&mut viols, bname, ha.name(), c, "hmac", hx(&want), hx(&out[..ha.hash_len()]));
                        }
                        if want != crate::prims::hmac(ha, &key, &data) {
                            return Err("evaluator: expanded HMAC term differs from prims::hmac".into());
                        }
                    },
                    _ => {
                        let ckid = ar.intern(&c["ck"])?;
                        let ikmid = ar.intern(&c["ikm"])?;
                        let outs = c["outputs"].as_u64().unwrap_or(0) as usize;
                        let exp: Vec<usize> = c["expect"].as_array().unwrap().iter().map(|t| ar.intern(t).unwrap()).collect();
                        let atom: Vec<usize> = c["atomic"].as_array().unwrap().iter().map(|t| ar.intern(t).unwrap()).collect();
                        let mut ev = Evaluator::new(ps, &bind, &ar);
                        let ck = ev.eval(ckid)?;
                        if ck.len() != ha.hash_len() {
                            continue;
                        }
                        let ikm = ev.eval(ikmid)?;
                        let mut o = [vec![0u8; 64], vec![0u8; 64], vec![0u8; 64]];
                        n_eval += 1;
                        distinct.insert(format!("{bname}|{}|hkdf|{}|{}", ha.name(), ikm.len(), outs));
                        let (o1, rest) = o.split_at_mut(1);
                        let (o2, o3) = rest.split_at_mut(1);
                        let r = catch_unwind(AssertUnwindSafe(|| h.hkdf(&ck, &ikm, outs, &mut o1[0], &mut o2[0], &mut o3[0])));
                        if r.is_err() {
                            push(&mut viols, bname, ha.name(), c, "panic", "hkdf outputs".into(), "panic".into());
                            continue;
                        }
                        for i in 0..outs {
                            let want = ev.eval(exp[i])?;
                            let want_atomic = ev.eval(atom[i])?;
                            if want != want_atomic {
                                return Err("evaluator: atomic kdf term differs from its HMAC expansion".into());
                            }
                            if o[i][..ha.hash_len()] != want[..] {
                                push(&mut viols, bname, ha.name(), c, &format!("hkdf_output_{}", i + 1), hx(&want), hx(&o[i][..ha.hash_len()]));
                            }
                        }
                    },
                }
            }
        }
        // ---- ciphers: encrypt / decrypt / rejection / rekey
        for (cc, ca) in [
            (CipherChoice::ChaChaPoly, CipherAlg::ChaChaPoly),
            (CipherChoice::AESGCM, CipherAlg::AesGcm),
            (CipherChoice::XChaChaPoly, CipherAlg::XChaChaPoly),
        ] {
            let ps = PrimSet { dh: DhAlg::X25519, cipher: ca, hash: HashAlg::Sha256 };
            let mut ci = match res.resolve_cipher(&cc) {
                Some(c) => c,
                None => continue,
            };
            for c in cases.iter().filter(|c| matches!(c["kind"].as_str(), Some("aead") | Some("rekey"))) {
                let mut ar = Arena::new();
                if c["kind"].as_str() == Some("rekey") {
                    let (kid, pid) = (ar.intern(&c["key"])?, ar.intern(&c["probe"])?);
                    let mut ev = Evaluator::new(ps, &bind, &ar);
                    let key: [u8; 32] = ev.eval(kid)?.as_slice().try_into().map_err(|_| "key")?;
                    let want = ev.eval(pid)?;
                    ci.set(&key);
                    n_eval += 1;
                    distinct.insert(format!("{bname}|{}|rekey", ca.name()));
                    let mut out = vec![0u8; 20 + 16];
                    let ad = crate::eval::junk_bytes(seed, "lit:ad", 3);
                    let pt = crate::eval::junk_bytes(seed, "lit:pt", 20);
                    let r = catch_unwind(AssertUnwindSafe(|| {
                        ci.rekey();
                        ci.encrypt(7, &ad, &pt, &mut out)
                    }));
                    if r.is_err() {
                        push(&mut viols, bname, ca.name(), c, "panic", "rekey".into(), "panic".into());
                    } else if out != want {
                        push(&mut viols, bname, ca.name(), c, "rekey", hx(&want), hx(&out));
                    }
                    continue;
                }
                let ids = [
                    ar.intern(&c["key"])?,
                    ar.intern(&c["ad"])?,
                    ar.intern(&c["pt"])?,
                    ar.intern(&c["expect"])?,
                    ar.intern(&c["otherkey"])?,
                    ar.intern(&c["otherad"])?,
                    ar.intern(&c["nonce"])?,
                    ar.intern(&c["othernonce"])?,
                ];
                let mut ev = Evaluator::new(ps, &bind, &ar);
                let key: [u8; 32] = ev.eval(ids[0])?.as_slice().try_into().map_err(|_| "key")?;
                let ad = ev.eval(ids[1])?;
                let pt = ev.eval(ids[2])?;
                let want = ev.eval(ids[3])?;
                let okey: [u8; 32] = ev.eval(ids[4])?.as_slice().try_into().map_err(|_| "key")?;
                let oad = ev.eval(ids[5])?;
                let n = ar.nonce_any(ids[6])?;
                let on = ar.nonce_any(ids[7])?;
                n_eval += 1;
                distinct.insert(format!("{bname}|{}|aead|{}|{}|{}", ca.name(), n, ad.len(), pt.len()));
                ci.set(&key);
                let mut out = vec![0u8; pt.len() + 16];
                let r = catch_unwind(AssertUnwindSafe(|| ci.encrypt(n, &ad, &pt, &mut out)));
                match r {
                    Err(_) => {
                        push(&mut viols, bname, ca.name(), c, "panic", "ciphertext".into(), "panic".into());
                        continue;
                    },
                    Ok(l) => {
                        if l != out.len() || out != want {
                            push(&mut viols, bname, ca.name(), c, "encrypt", hx(&want), hx(&out[..l.min(out.len())]));
                            continue;
                        }
                    },
                }
                // decrypt inverts, whatever room the output buffer has beyond the plaintext
                for slack in [0usize, 1, 8, 15, 16, 17, 100] {
                    let mut back = vec![0u8; pt.len() + slack];
                    n_eval += 1;
                    match catch_unwind(AssertUnwindSafe(|| ci.decrypt(n, &ad, &want, &mut back))) {
                        Ok(Ok(l)) if l == pt.len() && back[..l] == pt[..] => {},
                        other => {
                            push(&mut viols, bname, ca.name(), c, &format!("decrypt_inverts_slack{slack}"), "Ok(plaintext)".into(), format!("{:?}", other.map(|r| r.map_err(|e| format!("{e:?}"))).map_err(|_| "panic")));
                            break;
                        },
                    }
                }
                // ... and rejects everything else
                let mut rej: Vec<(&str, [u8; 32], u64, Vec<u8>, Vec<u8>)> = vec![
                    ("other_key", okey, n, ad.clone(), want.clone()),
                    ("other_nonce", key, on, ad.clone(), want.clone()),
                    ("other_ad", key, n, oad.clone(), want.clone()),
                ];
                for (lbl, pos) in [("flip_first", 0usize), ("flip_mid", want.len() / 2), ("flip_tag_first", want.len() - 16), ("flip_last", want.len() - 1)] {
                    let mut m = want.clone();
                    m[pos] ^= 0x04;
                    rej.push((lbl, key, n, ad.clone(), m));
                }
                if n != u64::MAX {
                    // nonces differing only in high bytes must not collide
                    rej.push(("nonce_plus_2^32", key, n.wrapping_add(1 << 32), ad.clone(), want.clone()));
                    rej.push(("nonce_xor_top_byte", key, n ^ (0x80u64 << 56), ad.clone(), want.clone()));
                }
                for (lbl, k, nn, aad, m) in rej {
                    ci.set(&k);
                    let mut b2 = vec![0u8; m.len()];
                    n_eval += 1;
                    match catch_unwind(AssertUnwindSafe(|| ci.decrypt(nn, &aad, &m, &mut b2))) {
                        Ok(Err(_)) => {},
                        Ok(Ok(_)) => push(&mut viols, bname, ca.name(), c, &format!("accepts_{lbl}"), "Err(Decrypt)".into(), "Ok".into()),
                        Err(_) => push(&mut viols, bname, ca.name(), c, "panic", "Err(Decrypt)".into(), format!("panic on {lbl}")),
                    }
                }
            }
        }
        // ---- DH
        for (dc, da) in [(DHChoice::Curve25519, DhAlg::X25519), (DHChoice::P256, DhAlg::P256)] {
            let ps = PrimSet { dh: da, cipher: CipherAlg::ChaChaPoly, hash: HashAlg::Sha256 };
            let mut d = match res.resolve_dh(&dc) {
                Some(d) => d,
                None => continue,
            };
            for c in cases.iter().filter(|c| matches!(c["kind"].as_str(), Some("dhpub") | Some("dh") | Some("dhraw") | Some("keygen"))) {
                let mut ar = Arena::new();
                match c["kind"].as_str().unwrap() {
                    "dhpub" => {
                        let (sid, eid) = (ar.intern(&c["sk"])?, ar.intern(&c["expect"])?);
                        let mut ev = Evaluator::new(ps, &bind, &ar);
                        let sk = ev.eval(sid)?;
                        let want = ev.eval(eid)?;
                        n_eval += 1;
                        distinct.insert(format!("{bname}|{}|pub|{}", da.name(), c["sk"]));
                        d.set(&sk);
                        if d.pubkey() != want.as_slice() || d.privkey() != sk.as_slice() || d.pub_len() != want.len() {
                            push(&mut viols, bname, da.name(), c, "pubkey", hx(&want), hx(d.pubkey()));
                        }
                    },
                    "dh" | "dhraw" => {
                        if c["kind"].as_str() == Some("dhraw") && da == DhAlg::P256 {
                            continue;
                        }
                        let sid = ar.intern(&c["sk"])?;
                        let pid = ar.intern(if c["kind"].as_str() == Some("dh") { &c["pk"] } else { &c["pkraw"] })?;
                        let eid = ar.intern(&c["expect"])?;
                        let mut ev = Evaluator::new(ps, &bind, &ar);
                        let sk = ev.eval(sid)?;
                        let pk = ev.eval(pid)?;
                        let want = ev.eval(eid)?;
                        n_eval += 1;
                        distinct.insert(format!("{bname}|{}|dh|{}", da.name(), c["expect"]));
                        d.set(&sk);
                        let mut out = vec![0u8; 65];
                        match catch_unwind(AssertUnwindSafe(|| d.dh(&pk, &mut out))) {
                            Ok(Ok(())) => {
                                if out[..d.dh_len()] != want[..] {
                                    push(&mut viols, bname, da.name(), c, "dh", hx(&want), hx(&out[..d.dh_len()]));
                                }
                            },
                            Ok(Err(e)) => push(&mut viols, bname, da.name(), c, "dh", hx(&want), format!("Err({e:?})")),
                            Err(_) => push(&mut viols, bname, da.name(), c, "panic", hx(&want), "panic".into()),
                        }
                        if let Some(m) = c.get("mirror") {
                            let (s2, p2) = (ar_eval(&ps, &bind, &m["sk"])?, ar_eval(&ps, &bind, &m["pk"])?);
                            d.set(&s2);
                            let mut o2 = vec![0u8; 65];
                            let _ = d.dh(&p2, &mut o2);
                            if o2[..d.dh_len()] != want[..] {
                                push(&mut viols, bname, da.name(), c, "dh_commutes", hx(&want), hx(&o2[..d.dh_len()]));
                            }
                        }
                    },
                    _ => {
                        // generated key pairs are consistent (public = Pub(private), private = the drawn bytes) and distinct
                        let mut rng = DetRng { seed, k: 0 };
                        let mut seen = std::collections::HashSet::new();
                        for _ in 0..c["draws"].as_u64().unwrap_or(4) {
                            let before = rng.k;
                            d.generate(&mut rng);
                            n_eval += 1;
                            let sk = d.privkey().to_vec();
                            let pk = d.pubkey().to_vec();
                            // the private key is what this call took from the random source (however it sliced its
                            // requests; after a redraw, the last bytes taken)
                            let taken = stream_bytes(seed, before, rng.k);
                            let want_sk = if taken.len() >= sk.len() { taken[taken.len() - sk.len()..].to_vec() } else { vec![] };
                            let want_pk = crate::prims::dh_pub(da, &sk);
                            if sk != want_sk {
                                push(&mut viols, bname, da.name(), c, "generate_uses_draw", hx(&want_sk), hx(&sk));
                            }
                            if Some(pk.clone()) != want_pk {
                                push(&mut viols, bname, da.name(), c, "generate_consistent", want_pk.map(|x| hx(&x)).unwrap_or_default(), hx(&pk));
                            }
                            if !seen.insert(pk) {
                                push(&mut viols, bname, da.name(), c, "generate_distinct", "distinct public keys".into(), "repeat".into());
                            }
                        }
                        distinct.insert(format!("{bname}|{}|keygen", da.name()));
                        // a key object that is re-set keeps no trace of its previous key: after an unusable private key
                        // (P-256: zero / >= group order) dh() must not answer with the previous key's secret
                        if da == DhAlg::P256 {
                            let good = crate::eval::junk_bytes(seed, "prim:reuse", 32);
                            let peer = crate::prims::dh_pub(da, &crate::eval::junk_bytes(seed, "prim:reuse2", 32)).unwrap_or_default();
                            for bad in [vec![0u8; 32], vec![0xffu8; 32]] {
                                d.set(&good);
                                let r = catch_unwind(AssertUnwindSafe(|| {
                                    d.set(&bad);
                                    let mut out = vec![0u8; 65];
                                    d.dh(&peer, &mut out).map(|_| out)
                                }));
                                n_eval += 1;
                                match r {
                                    Ok(Err(_)) => {},
                                    Ok(Ok(_)) => push(&mut viols, bname, da.name(), c, "dh_after_unusable_key", "Err".into(), "Ok(a shared secret)".into()),
                                    Err(_) => push(&mut viols, bname, da.name(), c, "panic", "Err".into(), "panic".into()),
                                }
                            }
                        }
                    },
                }
            }
        }
        // the backend's own random source: two draws differ
        if let Some(mut g) = res.resolve_rng() {
            let mut a = [0u8; 32];
            let mut b = [0u8; 32];
            g.fill_bytes(&mut a);
            g.fill_bytes(&mut b);
            n_eval += 1;
            if a == b || a == [0u8; 32] {
                push(&mut viols, bname, "rng", &json!({"kind":"rng"}), "rng_distinct", "two different non-zero draws".into(), "equal/zero".into());
            }
        }
    }
    let replay_dir = o.get("replay-dir").unwrap_or("replays").to_string();
    std::fs::create_dir_all(format!("{replay_dir}/C18")).ok();
    let mut keep: Vec<Value> = vec![];
    let mut sig = std::collections::HashMap::new();
    for mut v in viols.clone() {
        let s = format!("{}|{}", v["op"], v["what"]);
        let c = sig.entry(s).or_insert(0);
        *c += 1;
        if *c > 2 || keep.len() >= 12 {
            continue;
        }
        let body = serde_json::to_vec(&json!({"property":"C18","kind":"prim","seed":seed,"violation":v})).unwrap();
        let path = format!("{replay_dir}/C18/{}.json", crate::util::sha_hex(&body));
        std::fs::write(&path, &body).map_err(|e| e.to_string())?;
        v["replay"] = json!(path);
        keep.push(v);
    }
    let res = json!({"cases": cases.len(), "evaluations": n_eval, "distinct": distinct.len(), "violations_total": viols.len(),
                     "violations": keep, "samples": cases.iter().step_by(97).take(4).collect::<Vec<_>>()});
    if let Some(p) = o.get("result") {
        std::fs::write(p, serde_json::to_vec_pretty(&res).unwrap()).map_err(|e| e.to_string())?;
    }
    println!("{}", json!({"cases": cases.len(), "evaluations": n_eval, "violations": viols.len()}));
    Ok(if viols.is_empty() { 0 } else { 1 })
}

fn ar_eval(ps: &PrimSet, b: &Bindings, t: &Value) -> Result<Vec<u8>, String> {
    let mut ar = Arena::new();
    let id = ar.intern(t)?;
    Evaluator::new(*ps, b, &ar).eval(id)
}
