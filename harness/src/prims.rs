//! Independent primitive layer: every function here calls the primitive crates directly
//! and never goes through snow's resolvers, `types.rs` (HMAC/HKDF) or state machines.
//! HMAC (RFC 2104) and the Noise HKDF are written out by hand over the raw hash.

use aes_gcm::aead::{AeadInPlace, KeyInit};
use blake2::Digest as _;

#[derive(Clone, Copy, Debug, PartialEq, Eq, Hash)]
pub enum HashAlg {
    Sha256,
    Sha512,
    Blake2s,
    Blake2b,
}
#[derive(Clone, Copy, Debug, PartialEq, Eq, Hash)]
pub enum CipherAlg {
    ChaChaPoly,
    AesGcm,
    XChaChaPoly,
}
#[derive(Clone, Copy, Debug, PartialEq, Eq, Hash)]
pub enum DhAlg {
    X25519,
    P256,
}

impl HashAlg {
    pub fn parse(s: &str) -> Option<Self> {
        Some(match s {
            "SHA256" => Self::Sha256,
            "SHA512" => Self::Sha512,
            "BLAKE2s" => Self::Blake2s,
            "BLAKE2b" => Self::Blake2b,
            _ => return None,
        })
    }
    pub fn name(self) -> &'static str {
        match self {
            Self::Sha256 => "SHA256",
            Self::Sha512 => "SHA512",
            Self::Blake2s => "BLAKE2s",
            Self::Blake2b => "BLAKE2b",
        }
    }
    pub fn hash_len(self) -> usize {
        match self {
            Self::Sha256 | Self::Blake2s => 32,
            _ => 64,
        }
    }
    pub fn block_len(self) -> usize {
        match self {
            Self::Sha256 | Self::Blake2s => 64,
            _ => 128,
        }
    }
}
impl CipherAlg {
    pub fn parse(s: &str) -> Option<Self> {
        Some(match s {
            "ChaChaPoly" => Self::ChaChaPoly,
            "AESGCM" => Self::AesGcm,
            "XChaChaPoly" => Self::XChaChaPoly,
            _ => return None,
        })
    }
    pub fn name(self) -> &'static str {
        match self {
            Self::ChaChaPoly => "ChaChaPoly",
            Self::AesGcm => "AESGCM",
            Self::XChaChaPoly => "XChaChaPoly",
        }
    }
}
impl DhAlg {
    pub fn parse(s: &str) -> Option<Self> {
        Some(match s {
            "25519" => Self::X25519,
            "P256" => Self::P256,
            _ => return None,
        })
    }
    pub fn name(self) -> &'static str {
        match self {
            Self::X25519 => "25519",
            Self::P256 => "P256",
        }
    }
    pub fn pub_len(self) -> usize {
        match self {
            Self::X25519 => 32,
            Self::P256 => 65,
        }
    }
}

pub fn hash(alg: HashAlg, parts: &[&[u8]]) -> Vec<u8> {
    match alg {
        HashAlg::Sha256 => {
            let mut h = sha2::Sha256::new();
            for p in parts {
                h.update(p);
            }
            h.finalize().to_vec()
        },
        HashAlg::Sha512 => {
            let mut h = sha2::Sha512::new();
            for p in parts {
                h.update(p);
            }
            h.finalize().to_vec()
        },
        HashAlg::Blake2s => {
            let mut h = blake2::Blake2s256::new();
            for p in parts {
                h.update(p);
            }
            h.finalize().to_vec()
        },
        HashAlg::Blake2b => {
            let mut h = blake2::Blake2b512::new();
            for p in parts {
                h.update(p);
            }
            h.finalize().to_vec()
        },
    }
}

/// Second, independent implementation (ring) for the SHA-2 family; None for BLAKE2.
pub fn hash_ring(alg: HashAlg, data: &[u8]) -> Option<Vec<u8>> {
    let a = match alg {
        HashAlg::Sha256 => &ring::digest::SHA256,
        HashAlg::Sha512 => &ring::digest::SHA512,
        _ => return None,
    };
    Some(ring::digest::digest(a, data).as_ref().to_vec())
}

/// RFC 2104, written out over the raw hash function.
pub fn hmac(alg: HashAlg, key: &[u8], data: &[u8]) -> Vec<u8> {
    let b = alg.block_len();
    let k0: Vec<u8> = if key.len() > b { hash(alg, &[key]) } else { key.to_vec() };
    let mut ipad = vec![0x36u8; b];
    let mut opad = vec![0x5cu8; b];
    for (i, x) in k0.iter().enumerate() {
        ipad[i] ^= x;
        opad[i] ^= x;
    }
    let inner = hash(alg, &[&ipad, data]);
    hash(alg, &[&opad, &inner])
}

/// Noise HKDF (rev 34, section 4.3): returns output number `i` (1-based, i <= 3).
pub fn hkdf(alg: HashAlg, ck: &[u8], ikm: &[u8], i: usize) -> Vec<u8> {
    let temp = hmac(alg, ck, ikm);
    let o1 = hmac(alg, &temp, &[1u8]);
    if i == 1 {
        return o1;
    }
    let mut in2 = o1.clone();
    in2.push(2);
    let o2 = hmac(alg, &temp, &in2);
    if i == 2 {
        return o2;
    }
    let mut in3 = o2.clone();
    in3.push(3);
    hmac(alg, &temp, &in3)
}

/// Nonce layout of each cipher (Noise 12.3/12.4; XChaChaPoly as documented by snow):
/// number of leading zero bytes and endianness of the 64-bit counter.
pub fn nonce_bytes(c: CipherAlg, n: u64) -> Vec<u8> {
    match c {
        CipherAlg::ChaChaPoly => {
            let mut v = vec![0u8; 4];
            v.extend_from_slice(&n.to_le_bytes());
            v
        },
        CipherAlg::AesGcm => {
            let mut v = vec![0u8; 4];
            v.extend_from_slice(&n.to_be_bytes());
            v
        },
        CipherAlg::XChaChaPoly => {
            let mut v = vec![0u8; 16];
            v.extend_from_slice(&n.to_le_bytes());
            v
        },
    }
}

pub fn aead_encrypt(c: CipherAlg, key: &[u8], n: u64, ad: &[u8], pt: &[u8]) -> Vec<u8> {
    assert_eq!(key.len(), 32, "aead key length");
    let nb = nonce_bytes(c, n);
    let mut buf = pt.to_vec();
    let tag: Vec<u8> = match c {
        CipherAlg::ChaChaPoly => chacha20poly1305::ChaCha20Poly1305::new(key.into())
            .encrypt_in_place_detached(nb.as_slice().into(), ad, &mut buf)
            .expect("chacha encrypt")
            .to_vec(),
        CipherAlg::XChaChaPoly => chacha20poly1305::XChaCha20Poly1305::new(key.into())
            .encrypt_in_place_detached(nb.as_slice().into(), ad, &mut buf)
            .expect("xchacha encrypt")
            .to_vec(),
        CipherAlg::AesGcm => aes_gcm::Aes256Gcm::new(key.into())
            .encrypt_in_place_detached(nb.as_slice().into(), ad, &mut buf)
            .expect("aesgcm encrypt")
            .to_vec(),
    };
    buf.extend_from_slice(&tag);
    buf
}

pub fn aead_decrypt(c: CipherAlg, key: &[u8], n: u64, ad: &[u8], ct: &[u8]) -> Option<Vec<u8>> {
    if ct.len() < 16 || key.len() != 32 {
        return None;
    }
    let nb = nonce_bytes(c, n);
    let (body, tag) = ct.split_at(ct.len() - 16);
    let mut buf = body.to_vec();
    let ok = match c {
        CipherAlg::ChaChaPoly => chacha20poly1305::ChaCha20Poly1305::new(key.into())
            .decrypt_in_place_detached(nb.as_slice().into(), ad, &mut buf, tag.into())
            .is_ok(),
        CipherAlg::XChaChaPoly => chacha20poly1305::XChaCha20Poly1305::new(key.into())
            .decrypt_in_place_detached(nb.as_slice().into(), ad, &mut buf, tag.into())
            .is_ok(),
        CipherAlg::AesGcm => aes_gcm::Aes256Gcm::new(key.into())
            .decrypt_in_place_detached(nb.as_slice().into(), ad, &mut buf, tag.into())
            .is_ok(),
    };
    if ok {
        Some(buf)
    } else {
        None
    }
}

/// ring as a second implementation for ChaChaPoly and AES-GCM (12-byte nonces only).
pub fn aead_encrypt_ring(c: CipherAlg, key: &[u8], n: u64, ad: &[u8], pt: &[u8]) -> Option<Vec<u8>> {
    use ring::aead;
    let alg = match c {
        CipherAlg::ChaChaPoly => &aead::CHACHA20_POLY1305,
        CipherAlg::AesGcm => &aead::AES_256_GCM,
        CipherAlg::XChaChaPoly => return None,
    };
    let k = aead::LessSafeKey::new(aead::UnboundKey::new(alg, key).ok()?);
    let nb = nonce_bytes(c, n);
    let mut arr = [0u8; 12];
    arr.copy_from_slice(&nb);
    let mut buf = pt.to_vec();
    let tag = k
        .seal_in_place_separate_tag(aead::Nonce::assume_unique_for_key(arr), aead::Aad::from(ad), &mut buf)
        .ok()?;
    buf.extend_from_slice(tag.as_ref());
    Some(buf)
}

/// Public key of a private key. None if the private key is not usable (P-256 scalar out of range).
pub fn dh_pub(d: DhAlg, sk: &[u8]) -> Option<Vec<u8>> {
    match d {
        DhAlg::X25519 => {
            let mut k = [0u8; 32];
            if sk.len() != 32 {
                return None;
            }
            k.copy_from_slice(sk);
            Some(x25519_dalek::x25519(k, x25519_dalek::X25519_BASEPOINT_BYTES).to_vec())
        },
        DhAlg::P256 => {
            use p256::elliptic_curve::sec1::ToEncodedPoint;
            let sk = p256::SecretKey::from_slice(sk).ok()?;
            Some(sk.public_key().to_encoded_point(false).as_bytes().to_vec())
        },
    }
}

/// DH(sk, pk). None if the operation is undefined (invalid P-256 point / scalar).
pub fn dh(d: DhAlg, sk: &[u8], pk: &[u8]) -> Option<Vec<u8>> {
    match d {
        DhAlg::X25519 => {
            if sk.len() != 32 || pk.len() != 32 {
                return None;
            }
            let mut k = [0u8; 32];
            let mut u = [0u8; 32];
            k.copy_from_slice(sk);
            u.copy_from_slice(pk);
            Some(x25519_dalek::x25519(k, u).to_vec())
        },
        DhAlg::P256 => {
            let sk = p256::SecretKey::from_slice(sk).ok()?;
            let pk = p256::PublicKey::from_sec1_bytes(pk).ok()?;
            let ss = p256::ecdh::diffie_hellman(sk.to_nonzero_scalar(), pk.as_affine());
            Some(ss.raw_secret_bytes().to_vec())
        },
    }
}

/// REKEY(k) (Noise 4.2): first 32 bytes of ENCRYPT(k, 2^64-1, "", 0^32).
pub fn rekey(c: CipherAlg, key: &[u8]) -> Vec<u8> {
    let mut v = aead_encrypt(c, key, u64::MAX, &[], &[0u8; 32]);
    v.truncate(32);
    v
}

/// Start-up self check of this layer: RustCrypto vs ring where both exist, and RFC vectors.
pub fn self_check() -> Result<(), String> {
    let data: Vec<u8> = (0..300u32).map(|i| (i * 7 + 3) as u8).collect();
    for alg in [HashAlg::Sha256, HashAlg::Sha512] {
        for l in [0usize, 1, 55, 56, 63, 64, 65, 127, 128, 129, 300] {
            let a = hash(alg, &[&data[..l]]);
            let b = hash_ring(alg, &data[..l]).unwrap();
            if a != b {
                return Err(format!("hash mismatch RustCrypto vs ring {:?} len {}", alg, l));
            }
        }
    }
    let key = [0x42u8; 32];
    for c in [CipherAlg::ChaChaPoly, CipherAlg::AesGcm] {
        for n in [0u64, 1, 0x0102030405060708, u64::MAX - 1, u64::MAX] {
            for l in [0usize, 1, 16, 17, 300] {
                let a = aead_encrypt(c, &key, n, &data[..7], &data[..l]);
                let b = aead_encrypt_ring(c, &key, n, &data[..7], &data[..l]).unwrap();
                if a != b {
                    return Err(format!("aead mismatch RustCrypto vs ring {:?} n {} len {}", c, n, l));
                }
                if aead_decrypt(c, &key, n, &data[..7], &a).as_deref() != Some(&data[..l]) {
                    return Err(format!("aead roundtrip {:?}", c));
                }
            }
        }
    }
    // RFC 4231 test case 2 (HMAC-SHA-256 / HMAC-SHA-512, key "Jefe")
    let m = hmac(HashAlg::Sha256, b"Jefe", b"what do ya want for nothing?");
    if hex::encode(&m) != "5bdcc146bf60754e6a042426089575c75a003f089d2739839dec58b964ec3843" {
        return Err("hmac-sha256 rfc4231".into());
    }
    let m = hmac(HashAlg::Sha512, b"Jefe", b"what do ya want for nothing?");
    if hex::encode(&m)
        != "164b7a7bfcf819e2e395fbe73b56e0a387bd64222e831fd610270cd7ea2505549758bf75c05a994a6d034f65f8f0e6fdcaeab1a34d4a6b4b636e070a38bce737"
    {
        return Err("hmac-sha512 rfc4231".into());
    }
    // RFC 7748 section 6.1 X25519
    let a = hex::decode("77076d0a7318a57d3c16c17251b26645df4c2f87ebc0992ab177fba51db92c2a").unwrap();
    let b_pub = hex::decode("de9edb7d7b7dc1b4d35b61c2ece435373f8343c85b78674dadfc7e146f882b4f").unwrap();
    if hex::encode(dh_pub(DhAlg::X25519, &a).unwrap())
        != "8520f0098930a754748b7ddcb43ef75a0dbf3a0d26381af4eba4a98eaa9b4e6a"
    {
        return Err("x25519 pub rfc7748".into());
    }
    if hex::encode(dh(DhAlg::X25519, &a, &b_pub).unwrap())
        != "4a5d9d5ba4ce2de1728e3bf480350f25e07e21c947d19e3376f09b3c1e161742"
    {
        return Err("x25519 dh rfc7748".into());
    }
    // RFC 8439 2.8.2 ChaCha20-Poly1305 AEAD (nonce 07 00 00 00 | 40..47): counter LE = 0x4746454443424140, prefix differs
    // (Noise uses a zero prefix, so only the RustCrypto/ring agreement and the Cacophony anchor cover the layout.)
    Ok(())
}
