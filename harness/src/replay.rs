//! D1 driver: replays TLC-generated scenarios on the real code, for every selected concrete
//! instance (protocol name of the scenario's class, primitive set, backend assignment, seed).

use crate::eval::PrimSet;
use crate::exec::{check_aead_ops, Instance, Outcome, Runner};
use crate::prims::{CipherAlg, DhAlg, HashAlg};
use crate::resolver::Backend;
use crate::util::{read_tlc_json, sha_hex, Opts, Rng};
use serde_json::{json, Value};
use std::collections::{BTreeMap, HashMap};
use std::sync::atomic::{AtomicUsize, Ordering};
use std::sync::Mutex;

pub fn class_key(pp: &Value) -> String {
    format!(
        "{}|{}|{}|{}{}",
        pp["pat"].as_str().unwrap_or(""),
        pp["psks"],
        pp["publen"],
        pp["initpad"],
        if pp["hfs"].as_bool().unwrap_or(false) { "|hfs" } else { "" }
    )
}

const PROLOGUE_LENS: [usize; 9] = [0, 1, 63, 64, 65, 127, 128, 129, 300];

fn primset_of(n: &Value) -> Option<PrimSet> {
    Some(PrimSet {
        dh: DhAlg::parse(n["dh"].as_str()?)?,
        cipher: CipherAlg::parse(n["cipher"].as_str()?)?,
        hash: HashAlg::parse(n["hash"].as_str()?)?,
    })
}

fn ring_supports(ps: &PrimSet) -> bool {
    matches!(ps.cipher, CipherAlg::ChaChaPoly | CipherAlg::AesGcm) && matches!(ps.hash, HashAlg::Sha256 | HashAlg::Sha512)
}

/// endpoint ids that are built in a scenario, with the class of each
fn endpoint_classes(scn: &Value) -> Vec<(String, String)> {
    let mut v = vec![];
    if let Some(steps) = scn["steps"].as_array() {
        for s in steps {
            if s["op"].as_str() == Some("build") {
                v.push((s["ep"].as_str().unwrap_or("").to_string(), class_key(&s["args"]["pp"])));
            }
        }
    }
    v
}

struct Job {
    scn_idx: usize,
    inst: Instance,
}

pub fn run_instance(scn: &Value, inst: &Instance) -> Outcome {
    Runner::new(scn, inst).run()
}

fn violation_record(prop: &str, scn: &Value, inst: &Instance, v: &Value) -> Value {
    json!({"property": prop, "instance": inst.to_json(), "violation": v, "scenario": scn})
}

/// Per-instance summary kept after a run (the recorded operations themselves are dropped at once).
struct Summary {
    calls: usize,
    steps: usize,
    slack: bool,
    tool_error: Option<String>,
    enc_ops: usize,
    viols: Vec<Value>,
}

fn summarize(scn: &Value, out: Outcome) -> Summary {
    let mut vs: Vec<Value> = out.violations.iter().map(|v| v.to_json()).collect();
    let reuse_applies = scn.get("noreuse").and_then(|x| x.as_bool()).unwrap_or(true);
    for (what, detail) in check_aead_ops(&out.ops) {
        if what == "nonce_reuse" && !reuse_applies {
            continue;
        }
        vs.push(json!({"step": -1, "op": "aead_ops", "what": what, "expected": "no (key,nonce) reuse; reserved nonce unused",
                       "observed": detail, "cause": ""}));
    }
    Summary {
        calls: out.calls,
        steps: out.steps_run,
        slack: out.diverged_slack,
        tool_error: out.tool_error,
        enc_ops: out.ops.iter().filter(|o| matches!(o, crate::resolver::Op::Encrypt { .. })).count(),
        viols: vs,
    }
}

pub fn main(o: &Opts) -> Result<i32, String> {
    use std::io::BufRead;
    crate::prims::self_check()?;
    let prop = o.req("prop")?.to_string();
    let names = read_tlc_json(o.req("names")?, "NAME")?;
    let seed = o.num("seed", 1);
    let per_scn = o.num("per-scn", 3) as usize; // 0 = all names of the class
    let backends_mode = o.get("backends").unwrap_or("default").to_string();
    let threads = o.num("threads", 8) as usize;
    let replay_dir = o.get("replay-dir").unwrap_or("replays").to_string();
    let max_viol = o.num("max-violations", 50) as usize;
    let dh_filter = o.get("dh").map(|s| s.to_string());
    let chunk = o.num("chunk", 4000) as usize;

    // class -> names
    let mut by_class: HashMap<String, Vec<&Value>> = HashMap::new();
    for n in &names {
        by_class.entry(class_key(n)).or_default().push(n);
        by_class.entry(format!("T|{}", n["oneway"])).or_default().push(n);
    }
    let mut rng = Rng(seed ^ 0x5eed);
    let mut no_names = 0usize;
    let mut lenient_skips = 0usize;
    let mut n_scn = 0usize;
    let mut n_inst = 0usize;
    let mut calls = 0usize;
    let mut steps = 0usize;
    let mut slack = 0usize;
    let mut tool_errors: Vec<String> = vec![];
    let mut viols: Vec<Value> = vec![];
    let mut distinct_names: BTreeMap<String, usize> = BTreeMap::new();
    let mut distinct_cases = 0usize;
    let mut enc_ops = 0usize;
    let mut sig_count: HashMap<String, usize> = HashMap::new();
    let mut viol_total = 0usize;
    let mut samples: Vec<Value> = vec![];
    // how often each failure cause of the model occurs in the replayed scenarios (vacuity check of the enumeration)
    let mut cause_hist: BTreeMap<String, usize> = BTreeMap::new();
    std::fs::create_dir_all(format!("{replay_dir}/{prop}")).ok();

    // scenarios are streamed in chunks: TLC dumps can be gigabytes
    let f = std::fs::File::open(o.req("scn")?).map_err(|e| e.to_string())?;
    let mut lines = std::io::BufReader::with_capacity(1 << 20, f).lines();
    let prefix = "<<\"SCN\", ";
    loop {
        let mut scns: Vec<Value> = vec![];
        while scns.len() < chunk {
            match lines.next() {
                None => break,
                Some(line) => {
                    let line = line.map_err(|e| e.to_string())?;
                    if let Some(rest) = line.strip_prefix(prefix) {
                        let inner = rest.strip_suffix(">>").ok_or("TLC line without >>")?;
                        let st: String = serde_json::from_str(inner).map_err(|e| format!("TLC string: {e}"))?;
                        scns.push(serde_json::from_str(&st).map_err(|e| format!("TLC json: {e}"))?);
                    }
                },
            }
        }
        if scns.is_empty() {
            break;
        }
        let base = n_scn;
        n_scn += scns.len();
        for scn in &scns {
            if let Some(steps) = scn["steps"].as_array() {
                for st in steps {
                    let e = &st["exp"];
                    if e["res"].as_str() == Some("err") {
                        if let Some(c) = e.get("cause").and_then(|c| c.as_str()) {
                            *cause_hist.entry(c.to_string()).or_default() += 1;
                        }
                        if let Some(a) = e.get("causes").and_then(|c| c.as_array()) {
                            for c in a.iter().filter_map(|x| x.as_str()) {
                                *cause_hist.entry(c.to_string()).or_default() += 1;
                            }
                        }
                    }
                }
            }
        }
        let mut jobs: Vec<Job> = vec![];
        for (sl, scn) in scns.iter().enumerate() {
            let si = base + sl;
            let mut eps = endpoint_classes(scn);
            if let Some(nm) = scn.get("name").and_then(|n| n.as_str()) {
                // the scenario names its protocol itself (names outside the 13 344-name table: psk5.., fallback, psk03)
                let parts: Vec<&str> = nm.split('_').collect();
                if parts.len() != 5 {
                    return Err(format!("scenario name {nm}"));
                }
                // a scenario built on a NON-CANONICAL spelling (psk03): an implementation may refuse such a name (the
                // property does not define the numeral); then the scenario does not apply
                if scn["oddname"].as_bool() == Some(true) {
                    let refused = [Some(nm), scn.get("name2").and_then(|n| n.as_str())].iter().flatten().any(|s| {
                        matches!(std::panic::catch_unwind(|| s.parse::<snow::params::NoiseParams>()), Ok(Err(snow::Error::Pattern(_))))
                    });
                    if refused {
                        no_names += 1;
                        lenient_skips += 1;
                        continue;
                    }
                }
                let ps = PrimSet {
                    dh: DhAlg::parse(parts[2].split('+').next().unwrap_or("")).ok_or("scn dh")?,
                    cipher: CipherAlg::parse(parts[3]).ok_or("scn cipher")?,
                    hash: HashAlg::parse(parts[4]).ok_or("scn hash")?,
                };
                let mut nmap = HashMap::new();
                nmap.insert("*".to_string(), nm.to_string());
                // C08: the responder is given another spelling of the same protocol (bound to the atom "name2")
                if let Some(n2) = scn.get("name2").and_then(|n| n.as_str()) {
                    nmap.insert("R".to_string(), n2.to_string());
                }
                // under a mixed-backend run the self-named scenarios rotate through the three resolver shapes
                let mut bk = HashMap::new();
                if backends_mode != "default" {
                    bk.insert("*".to_string(), [Backend::Default, Backend::RingDefault, Backend::DefaultRing][si % 3]);
                }
                jobs.push(Job {
                    scn_idx: sl,
                    inst: Instance {
                        names: nmap,
                        ps,
                        backends: bk,
                        seed: seed.wrapping_mul(1_000_003).wrapping_add(si as u64),
                        prologue_len: PROLOGUE_LENS[(si + seed as usize) % PROLOGUE_LENS.len()],
                        psks: vec![],
                    },
                });
                continue;
            }
            if scn["family"].as_str() == Some("transport") {
                eps = vec![("*".to_string(), format!("T|{}", scn["prm"]["oneway"]))];
            }
            if eps.is_empty() {
                continue;
            }
            // the primary class decides the primitive set; other endpoints get a name of THEIR class with
            // the same primitives where one exists
            let primary = &eps[0].1;
            let mut cands: Vec<&Value> = by_class.get(primary).cloned().unwrap_or_default();
            if let Some(d) = &dh_filter {
                cands.retain(|n| n["dh"].as_str() == Some(d.as_str()));
            }
            if backends_mode == "mix" || backends_mode == "mix-sample" {
                // mostly names whose primitives ring really provides; every 8th scenario any name at all (a fallback
                // resolver must behave like the default one for what ring lacks)
                if si % 8 != 7 {
                    cands.retain(|n| primset_of(n).map(|p| ring_supports(&p)).unwrap_or(false));
                }
            }
            if cands.is_empty() {
                no_names += 1;
                continue;
            }
            // spelling variants of one class (the name table marks them: hfs before / after the psk modifiers) are
            // taken in turn, so that every variant is used for every class
            let nvar = cands.iter().filter_map(|n| n["variant"].as_u64()).max().map(|m| m as usize + 1).unwrap_or(1);
            let picks: Vec<&Value> = if per_scn == 0 || per_scn >= cands.len() {
                cands.clone()
            } else if nvar > 1 {
                let start = rng.below(cands.len() as u64) as usize;
                (0..per_scn)
                    .map(|k| {
                        let want = ((si + k) % nvar) as u64;
                        let grp: Vec<&Value> = cands.iter().copied().filter(|n| n["variant"].as_u64().unwrap_or(0) == want).collect();
                        if grp.is_empty() { cands[(start + k) % cands.len()] } else { grp[(start + k * 5) % grp.len()] }
                    })
                    .collect()
            } else {
                // rotate through the class so that all primitive sets get used across scenarios
                let start = rng.below(cands.len() as u64) as usize;
                let stride = (cands.len() / per_scn).max(1);
                (0..per_scn).map(|k| cands[(start + k * stride) % cands.len()]).collect()
            };
            for (pi, n) in picks.iter().enumerate() {
                let ps = primset_of(n).ok_or("bad name row")?;
                let mut nm = HashMap::new();
                nm.insert("*".to_string(), n["name"].as_str().unwrap_or("").to_string());
                for (ep, ck) in &eps {
                    if ck != primary {
                        let alt = by_class.get(ck).and_then(|v| {
                            v.iter().find(|x| x["dh"] == n["dh"] && x["cipher"] == n["cipher"] && x["hash"] == n["hash"])
                        });
                        if let Some(a) = alt {
                            nm.insert(ep.clone(), a["name"].as_str().unwrap_or("").to_string());
                        }
                    } else {
                        nm.insert(ep.clone(), n["name"].as_str().unwrap_or("").to_string());
                    }
                }
                let assignments: Vec<HashMap<String, Backend>> = match backends_mode.as_str() {
                    "default" => vec![HashMap::new()],
                    _ => {
                        let opts = [Backend::Default, Backend::RingDefault, Backend::DefaultRing];
                        let mut v = vec![];
                        for a in opts {
                            for b in opts {
                                let mut m = HashMap::new();
                                m.insert("I".to_string(), a);
                                m.insert("R".to_string(), b);
                                v.push(m);
                            }
                        }
                        if backends_mode == "mix-sample" {
                            let k = rng.below(v.len() as u64) as usize;
                            let k2 = (k + 4) % v.len();
                            vec![v[k].clone(), v[k2].clone(), v[1].clone()]
                        } else {
                            v
                        }
                    },
                };
                for (ai, asg) in assignments.into_iter().enumerate() {
                    jobs.push(Job {
                        scn_idx: sl,
                        inst: Instance {
                            names: nm.clone(),
                            ps,
                            backends: asg,
                            seed: seed.wrapping_mul(1_000_003).wrapping_add((si * 131 + pi * 17 + ai) as u64),
                            prologue_len: PROLOGUE_LENS[(si + pi + ai + seed as usize) % PROLOGUE_LENS.len()],
                            psks: n["psks"].as_array().map(|a| a.iter().filter_map(|x| x.as_u64().map(|v| v as u8)).collect()).unwrap_or_default(),
                        },
                    });
                }
            }
        }

        let next = AtomicUsize::new(0);
        let results: Mutex<Vec<(usize, Summary)>> = Mutex::new(vec![]);
        std::thread::scope(|s| {
            for _ in 0..threads.max(1) {
                s.spawn(|| loop {
                    let j = next.fetch_add(1, Ordering::SeqCst);
                    if j >= jobs.len() {
                        break;
                    }
                    let job = &jobs[j];
                    let scn = &scns[job.scn_idx];
                    let sum = summarize(scn, run_instance(scn, &job.inst));
                    results.lock().unwrap().push((j, sum));
                });
            }
        });
        let mut results = results.into_inner().unwrap();
        results.sort_by_key(|r| r.0);
        for (j, sum) in &results {
            let job = &jobs[*j];
            let scn = &scns[job.scn_idx];
            calls += sum.calls;
            steps += sum.steps;
            if sum.slack {
                slack += 1;
            }
            if let Some(e) = &sum.tool_error {
                if tool_errors.len() < 5 {
                    tool_errors.push(format!("scenario {} inst {}: {e}", base + job.scn_idx, job.inst.name_for("*")));
                }
            }
            *distinct_names.entry(job.inst.name_for("*").to_string()).or_default() += 1;
            distinct_cases += 1; // (scenario, name, backend assignment) triples are distinct by construction
            enc_ops += sum.enc_ops;
            for v in &sum.viols {
                viol_total += 1;
                // keep at most 2 replay files per distinct signature (call, observable, cause label)
                let sig = format!("{}|{}|{}", v["op"], v["what"], v["cause"]);
                let c = sig_count.entry(sig).or_default();
                *c += 1;
                if *c > 2 || viols.len() >= max_viol {
                    continue;
                }
                let rec = violation_record(&prop, scn, &job.inst, v);
                let body = serde_json::to_vec(&rec).unwrap();
                let path = format!("{replay_dir}/{prop}/{}.json", sha_hex(&body));
                std::fs::write(&path, &body).map_err(|e| e.to_string())?;
                let mut vv = v.clone();
                vv["replay"] = json!(path);
                vv["family"] = scn["family"].clone();
                vv["pat"] = scn["prm"]["pp"]["pat"].clone();
                vv["psks"] = scn["prm"]["pp"]["psks"].clone();
                vv["name"] = json!(job.inst.name_for("*"));
                viols.push(vv);
            }
        }
        // a few samples of what was actually run
        if samples.len() < 3 {
            if let Some(job) = jobs.get(jobs.len() / 2) {
                let scn = &scns[job.scn_idx];
                let ops: Vec<String> = scn["steps"]
                    .as_array()
                    .map(|a| a.iter().map(|s| format!("{}:{}", s["ep"].as_str().unwrap_or(""), s["op"].as_str().unwrap_or(""))).collect())
                    .unwrap_or_default();
                samples.push(json!({"family": scn["family"], "prm": scn["prm"], "name": job.inst.name_for("*"),
                                    "backends": job.inst.to_json()["backends"], "steps": ops}));
            }
        }
        n_inst += jobs.len();
    }
    let res = json!({
        "prop": prop, "scenarios": n_scn, "instances": n_inst, "steps": steps, "calls": calls,
        "distinct_cases": distinct_cases, "distinct_names": distinct_names.len(),
        "slack_diverged": slack, "scenarios_without_names": no_names, "encrypt_ops_observed": enc_ops,
        "tool_errors": tool_errors, "violations": viols, "violations_total": viol_total, "samples": samples,
        "cause_histogram": cause_hist,
    });
    if let Some(p) = o.get("result") {
        std::fs::write(p, serde_json::to_vec_pretty(&res).unwrap()).map_err(|e| e.to_string())?;
    }
    println!(
        "{}",
        json!({"prop": prop, "scenarios": n_scn, "instances": n_inst, "calls": calls,
               "violations": res["violations"].as_array().map(|a| a.len()), "tool_errors": res["tool_errors"]})
    );
    if !res["tool_errors"].as_array().map(|a| a.is_empty()).unwrap_or(true) {
        return Err(format!("tool errors: {}", res["tool_errors"]));
    }
    // (a run whose scenarios were all skipped because the implementation refuses non-canonical spellings is not vacuous)
    if n_inst == 0 && lenient_skips == 0 {
        return Err("no instances were run".into());
    }
    Ok(if res["violations"].as_array().map(|a| a.is_empty()).unwrap_or(true) { 0 } else { 1 })
}

/// Re-run one replay file.
pub fn one(o: &Opts) -> Result<i32, String> {
    let rec: Value = serde_json::from_str(&std::fs::read_to_string(o.req("file")?).map_err(|e| e.to_string())?)
        .map_err(|e| e.to_string())?;
    let iv = &rec["instance"];
    let mut names = HashMap::new();
    if let Some(m) = iv["names"].as_object() {
        for (k, v) in m {
            names.insert(k.clone(), v.as_str().unwrap_or("").to_string());
        }
    }
    let mut backends = HashMap::new();
    if let Some(m) = iv["backends"].as_object() {
        for (k, v) in m {
            let b = match v.as_str().unwrap_or("") {
                "default" => Backend::Default,
                "ring" => Backend::Ring,
                "fallback(ring,default)" => Backend::RingDefault,
                _ => Backend::DefaultRing,
            };
            backends.insert(k.clone(), b);
        }
    }
    let inst = Instance {
        names,
        ps: PrimSet {
            dh: DhAlg::parse(iv["dh"].as_str().unwrap_or("")).ok_or("dh")?,
            cipher: CipherAlg::parse(iv["cipher"].as_str().unwrap_or("")).ok_or("cipher")?,
            hash: HashAlg::parse(iv["hash"].as_str().unwrap_or("")).ok_or("hash")?,
        },
        backends,
        seed: iv["seed"].as_u64().unwrap_or(1),
        prologue_len: iv["prologue_len"].as_u64().unwrap_or(0) as usize,
        psks: iv["psks"].as_array().map(|a| a.iter().filter_map(|x| x.as_u64().map(|v| v as u8)).collect()).unwrap_or_default(),
    };
    let out = run_instance(&rec["scenario"], &inst);
    if let Some(e) = out.tool_error {
        return Err(e);
    }
    let mut n = 0;
    for v in &out.violations {
        println!("violation: {}", v.to_json());
        n += 1;
    }
    for (w, d) in check_aead_ops(&out.ops) {
        println!("violation: {w}: {d}");
        n += 1;
    }
    if n == 0 {
        println!("no violation reproduced ({} steps, {} calls)", out.steps_run, out.calls);
    }
    Ok(if n == 0 { 0 } else { 1 })
}
