//! Recording resolver: wraps the objects of the backend under test (DefaultResolver,
//! RingResolver or a FallbackResolver of both) so that the whole crypto boundary is
//! observable through `Builder::with_resolver` without touching snow:
//!   * Random  — deterministic stream (draw k of endpoint ep = eval::draw_bytes) or the
//!               backend's real RNG; every fill is logged;
//!   * Cipher  — set / encrypt / decrypt logged with key, nonce, ad, plaintext;
//!               `rekey` is NOT overridden, so snow's default rekey is observed through
//!               the encrypt(u64::MAX) + set it performs;
//!   * Dh/Hash — forwarded (hmac/hkdf are not overridden: snow's own code runs).

use crate::eval::draw_bytes;
use rand_core::{CryptoRng, RngCore};
use snow::params::{CipherChoice, DHChoice, HashChoice};
use snow::resolvers::{BoxedCryptoResolver, CryptoResolver, DefaultResolver, FallbackResolver, RingResolver};
use snow::types::{Cipher, Dh, Hash, Random};
use std::sync::{Arc, Mutex};

#[derive(Clone, Copy, Debug, PartialEq, Eq, Hash)]
pub enum Backend {
    Default,
    Ring,         // ring for what it has (no DH): only usable inside a fallback
    RingDefault,  // FallbackResolver(ring, default)
    DefaultRing,  // FallbackResolver(default, ring)
}

impl Backend {
    pub fn name(self) -> &'static str {
        match self {
            Backend::Default => "default",
            Backend::Ring => "ring",
            Backend::RingDefault => "fallback(ring,default)",
            Backend::DefaultRing => "fallback(default,ring)",
        }
    }
    pub fn make(self) -> BoxedCryptoResolver {
        match self {
            Backend::Default => Box::new(DefaultResolver),
            Backend::Ring => Box::new(RingResolver),
            Backend::RingDefault => Box::new(FallbackResolver::new(Box::new(RingResolver), Box::new(DefaultResolver))),
            Backend::DefaultRing => Box::new(FallbackResolver::new(Box::new(DefaultResolver), Box::new(RingResolver))),
        }
    }
}

#[derive(Clone, Debug)]
pub enum Op {
    Rand { ep: String, k: u64, bytes: Vec<u8> },
    CipherSet { ep: String, cid: usize, key: Vec<u8> },
    Encrypt { ep: String, cid: usize, key: Vec<u8>, nonce: u64, ad: Vec<u8>, pt: Vec<u8>, out: Vec<u8> },
    Decrypt { ep: String, cid: usize, key: Vec<u8>, nonce: u64, ad: Vec<u8>, ct: Vec<u8>, ok: bool },
}

/// What the KEM object of an endpoint did (hfs build): the oracle the KEM terms are bound to.
#[derive(Clone, Debug)]
pub enum KemOp {
    Gen { ep: String, k: u64, pubkey: Vec<u8> },
    Encap { ep: String, k: u64, pubkey: Vec<u8>, ct: Vec<u8>, ss: Vec<u8> },
    Decap { ep: String, ct: Vec<u8>, ss: Vec<u8> },
}

#[derive(Default)]
pub struct Log {
    pub ops: Vec<Op>,
    pub cipher_ctr: usize,
    pub kem: Vec<KemOp>,
}
pub type SharedLog = Arc<Mutex<Log>>;

pub fn new_log() -> SharedLog {
    Arc::new(Mutex::new(Log::default()))
}

pub struct RecResolver {
    /// primitive kind this resolver pretends not to have ("rng" | "dh" | "cipher" | "hash"), for C12
    pub lack: Option<String>,
    pub inner: BoxedCryptoResolver,
    pub ep: String,
    pub seed: u64,
    pub deterministic_rng: bool,
    pub log: SharedLog,
    pub rng_ctr: Arc<Mutex<u64>>,
}

impl RecResolver {
    pub fn new(backend: Backend, ep: &str, seed: u64, deterministic_rng: bool, log: SharedLog) -> Self {
        RecResolver {
            lack: None,
            inner: backend.make(),
            ep: ep.to_string(),
            seed,
            deterministic_rng,
            log,
            rng_ctr: Arc::new(Mutex::new(0)),
        }
    }
}

struct RecRng {
    ep: String,
    seed: u64,
    ctr: Arc<Mutex<u64>>,
    real: Option<Box<dyn Random>>,
    log: SharedLog,
}

impl RngCore for RecRng {
    fn next_u32(&mut self) -> u32 {
        let mut b = [0u8; 4];
        self.fill_bytes(&mut b);
        u32::from_le_bytes(b)
    }
    fn next_u64(&mut self) -> u64 {
        let mut b = [0u8; 8];
        self.fill_bytes(&mut b);
        u64::from_le_bytes(b)
    }
    /// The deterministic source is a BYTE STREAM (32-byte block j = draw_bytes(seed, ep, j, 32)); a call takes the next
    /// dest.len() bytes of it, so the specification's "k-th 32-byte draw" does not depend on how the code under test
    /// slices its requests (one 32-byte request or two 16-byte ones give the same key).
    fn fill_bytes(&mut self, dest: &mut [u8]) {
        let pos = {
            let mut c = self.ctr.lock().unwrap();
            let p = *c;
            *c += dest.len() as u64;
            p
        };
        match &mut self.real {
            Some(r) => r.fill_bytes(dest),
            None => {
                let mut blk = (u64::MAX, vec![]);
                for (i, b) in dest.iter_mut().enumerate() {
                    let p = pos + i as u64;
                    if blk.0 != p / 32 {
                        blk = (p / 32, draw_bytes(self.seed, &self.ep, p / 32, 32));
                    }
                    *b = blk.1[(p % 32) as usize];
                }
            },
        }
        self.log.lock().unwrap().ops.push(Op::Rand { ep: self.ep.clone(), k: pos / 32, bytes: dest.to_vec() });
    }
    fn try_fill_bytes(&mut self, dest: &mut [u8]) -> Result<(), rand_core::Error> {
        self.fill_bytes(dest);
        Ok(())
    }
}
impl CryptoRng for RecRng {}
impl Random for RecRng {}

struct RecCipher {
    inner: Box<dyn Cipher>,
    key: Vec<u8>,
    ep: String,
    cid: usize,
    log: SharedLog,
}

impl Cipher for RecCipher {
    fn name(&self) -> &'static str {
        self.inner.name()
    }
    fn set(&mut self, key: &[u8; 32]) {
        self.key = key.to_vec();
        self.log.lock().unwrap().ops.push(Op::CipherSet { ep: self.ep.clone(), cid: self.cid, key: key.to_vec() });
        self.inner.set(key);
    }
    fn encrypt(&self, nonce: u64, authtext: &[u8], plaintext: &[u8], out: &mut [u8]) -> usize {
        let n = self.inner.encrypt(nonce, authtext, plaintext, out);
        self.log.lock().unwrap().ops.push(Op::Encrypt {
            ep: self.ep.clone(),
            cid: self.cid,
            key: self.key.clone(),
            nonce,
            ad: authtext.to_vec(),
            pt: plaintext.to_vec(),
            out: out[..n.min(out.len())].to_vec(),
        });
        n
    }
    fn decrypt(&self, nonce: u64, authtext: &[u8], ciphertext: &[u8], out: &mut [u8]) -> Result<usize, snow::Error> {
        let r = self.inner.decrypt(nonce, authtext, ciphertext, out);
        self.log.lock().unwrap().ops.push(Op::Decrypt {
            ep: self.ep.clone(),
            cid: self.cid,
            key: self.key.clone(),
            nonce,
            ad: authtext.to_vec(),
            ct: ciphertext.to_vec(),
            ok: r.is_ok(),
        });
        r
    }
    /// Forward to the backend's own rekey (a backend may override the trait's default), and follow the key for the
    /// log with the specification's REKEY computed independently (bytes are compared elsewhere; the log only needs
    /// a stable identity for the new key).
    fn rekey(&mut self) {
        self.inner.rekey();
        if let Some(alg) = crate::prims::CipherAlg::parse(self.inner.name()) {
            self.key = crate::prims::rekey(alg, &self.key);
        }
        self.log.lock().unwrap().ops.push(Op::CipherSet { ep: self.ep.clone(), cid: self.cid, key: self.key.clone() });
    }
}

#[cfg(feature = "hfs")]
struct RecKem {
    inner: Box<dyn snow::types::Kem>,
    ep: String,
    log: SharedLog,
    gen_ctr: u64,
    enc_ctr: Mutex<u64>,
}

#[cfg(feature = "hfs")]
impl snow::types::Kem for RecKem {
    fn name(&self) -> &'static str {
        self.inner.name()
    }
    fn pub_len(&self) -> usize {
        self.inner.pub_len()
    }
    fn ciphertext_len(&self) -> usize {
        self.inner.ciphertext_len()
    }
    fn shared_secret_len(&self) -> usize {
        self.inner.shared_secret_len()
    }
    fn generate(&mut self, rng: &mut dyn Random) {
        self.inner.generate(rng);
        let k = self.gen_ctr;
        self.gen_ctr += 1;
        self.log.lock().unwrap().kem.push(KemOp::Gen { ep: self.ep.clone(), k, pubkey: self.inner.pubkey().to_vec() });
    }
    fn pubkey(&self) -> &[u8] {
        self.inner.pubkey()
    }
    fn encapsulate(&self, pubkey: &[u8], shared_secret_out: &mut [u8], ciphertext_out: &mut [u8]) -> Result<(usize, usize), snow::Error> {
        let (a, b) = self.inner.encapsulate(pubkey, shared_secret_out, ciphertext_out)?;
        let k = {
            let mut c = self.enc_ctr.lock().unwrap();
            let k = *c;
            *c += 1;
            k
        };
        self.log.lock().unwrap().kem.push(KemOp::Encap {
            ep: self.ep.clone(),
            k,
            pubkey: pubkey.to_vec(),
            ct: ciphertext_out[..b.min(ciphertext_out.len())].to_vec(),
            ss: shared_secret_out[..a.min(shared_secret_out.len())].to_vec(),
        });
        Ok((a, b))
    }
    fn decapsulate(&self, ciphertext: &[u8], shared_secret_out: &mut [u8]) -> Result<usize, snow::Error> {
        let n = self.inner.decapsulate(ciphertext, shared_secret_out)?;
        self.log.lock().unwrap().kem.push(KemOp::Decap {
            ep: self.ep.clone(),
            ct: ciphertext.to_vec(),
            ss: shared_secret_out[..n.min(shared_secret_out.len())].to_vec(),
        });
        Ok(n)
    }
}

impl CryptoResolver for RecResolver {
    #[cfg(feature = "hfs")]
    fn resolve_kem(&self, choice: &snow::params::KemChoice) -> Option<Box<dyn snow::types::Kem>> {
        if self.lack.as_deref() == Some("kem") {
            return None;
        }
        // whatever the backend under test resolves (a fallback pair must find the default backend's KEM by itself)
        let inner = self.inner.resolve_kem(choice)?;
        Some(Box::new(RecKem { inner, ep: self.ep.clone(), log: self.log.clone(), gen_ctr: 0, enc_ctr: Mutex::new(0) }))
    }
    fn resolve_rng(&self) -> Option<Box<dyn Random>> {
        if self.lack.as_deref() == Some("rng") {
            return None;
        }
        let real = self.inner.resolve_rng()?;
        Some(Box::new(RecRng {
            ep: self.ep.clone(),
            seed: self.seed,
            ctr: self.rng_ctr.clone(),
            real: if self.deterministic_rng { None } else { Some(real) },
            log: self.log.clone(),
        }))
    }
    fn resolve_dh(&self, choice: &DHChoice) -> Option<Box<dyn Dh>> {
        if self.lack.as_deref() == Some("dh") {
            return None;
        }
        self.inner.resolve_dh(choice)
    }
    fn resolve_hash(&self, choice: &HashChoice) -> Option<Box<dyn Hash>> {
        if self.lack.as_deref() == Some("hash") {
            return None;
        }
        self.inner.resolve_hash(choice)
    }
    fn resolve_cipher(&self, choice: &CipherChoice) -> Option<Box<dyn Cipher>> {
        if self.lack.as_deref() == Some("cipher") {
            return None;
        }
        let inner = self.inner.resolve_cipher(choice)?;
        let cid = {
            let mut l = self.log.lock().unwrap();
            l.cipher_ctr += 1;
            l.cipher_ctr
        };
        Some(Box::new(RecCipher { inner, key: vec![0u8; 32], ep: self.ep.clone(), cid, log: self.log.clone() }))
    }
}
