//! D2 recorder: protocol-agnostic random drivers perform public calls on real sessions and log one
//! NDJSON event per call at its return (the linearization point of a sequential library), error path
//! included, with arguments, result and the small state the API exposes. Byte strings are logged as
//! value-ids interned by content, so the trace specification (spec/SnowTrace.tla) decides the equality
//! structure - same hash on both sides, delivered payload = written payload, retry reproduces the same
//! bytes - without evaluating any cryptography. The driver knows no pattern, token, turn rule or length
//! formula: it is steered only by is_my_turn()/is_handshake_finished() and by the results it gets.

use crate::prims::DhAlg;
use crate::resolver::{new_log, Backend, Op, RecResolver};
use crate::util::{read_tlc_json, Opts, Rng};
use serde_json::{json, Value};
use snow::{Builder, HandshakeState, StatelessTransportState, TransportState};
use std::collections::HashMap;
use std::io::Write;

struct Interner {
    map: HashMap<Vec<u8>, usize>,
}
impl Interner {
    fn id(&mut self, b: &[u8]) -> String {
        let n = self.map.len();
        let k = *self.map.entry(b.to_vec()).or_insert(n);
        format!("v{k}")
    }
}

fn limbs(n: u64) -> Value {
    json!([(n >> 48) & 0xffff, (n >> 32) & 0xffff, (n >> 16) & 0xffff, n & 0xffff])
}

enum Ep {
    Hs(Box<HandshakeState>),
    Tr(Box<TransportState>),
    Sl(Box<StatelessTransportState>),
    Gone,
}

fn res_of(r: &Result<usize, snow::Error>) -> (String, usize) {
    match r {
        Ok(n) => ("ok".into(), *n),
        Err(e) => (format!("{:?}", e), 0),
    }
}

struct Session<'a> {
    it: Interner,
    out: &'a mut Vec<String>,
    eps: [Ep; 2],
    publen: usize,
}

const IDS: [&str; 2] = ["I", "R"];

impl<'a> Session<'a> {
    fn emit(&mut self, v: Value) {
        self.out.push(v.to_string());
    }
    fn hs_obs(&mut self, who: usize) -> Value {
        if let Ep::Hs(h) = &self.eps[who] {
            let hh = h.get_handshake_hash().to_vec();
            let rs = h.get_remote_static().map(|x| x.to_vec());
            let (t, f, e) = (h.is_my_turn(), h.is_handshake_finished(), h.was_write_payload_encrypted());
            let hhid = self.it.id(&hh);
            let rsid = rs.map(|x| self.it.id(&x)).unwrap_or_default();
            json!({"turn": t, "fin": f, "hh": hhid, "rso": rsid, "enc": e})
        } else {
            json!({})
        }
    }
    fn tr_obs(&mut self, who: usize) -> Value {
        match &self.eps[who] {
            Ep::Tr(t) => {
                let rs = t.get_remote_static().map(|x| x.to_vec());
                let (sn, rn) = (t.sending_nonce(), t.receiving_nonce());
                let rsid = rs.map(|x| self.it.id(&x)).unwrap_or_default();
                json!({"sn": limbs(sn), "rn": limbs(rn), "rso": rsid, "stateful": true})
            },
            Ep::Sl(t) => {
                let rs = t.get_remote_static().map(|x| x.to_vec());
                let rsid = rs.map(|x| self.it.id(&x)).unwrap_or_default();
                json!({"rso": rsid, "stateful": false})
            },
            _ => json!({}),
        }
    }
}

#[allow(clippy::too_many_lines)]
fn run_session(row: &Value, profile: &str, seed: u64, idx: u64, out: &mut Vec<String>) -> Result<(), String> {
    let mut r = Rng(seed.wrapping_mul(7919).wrapping_add(idx.wrapping_mul(104_729)) ^ 0xD2);
    let name = row["name"].as_str().ok_or("name")?.to_string();
    let dh = DhAlg::parse(row["dh"].as_str().unwrap_or("")).ok_or("dh")?;
    let publen = dh.pub_len();
    let log = new_log();
    let mut s = Session { it: Interner { map: HashMap::new() }, out, eps: [Ep::Gone, Ep::Gone], publen };
    s.emit(json!({"ev": "session", "idx": idx, "name": name, "pat": row["pat"], "psks": row["psks"], "publen": publen,
                  "initpad": row["initpad"], "hfs": row["hfs"].as_bool().unwrap_or(false), "profile": profile}));
    // key material: static keys from the library's own key generation (real OsRng), psks and prologue random
    let mut sks: Vec<Vec<u8>> = vec![];
    let mut pks: Vec<Vec<u8>> = vec![];
    for _ in 0..2 {
        let params: snow::params::NoiseParams = name.parse().map_err(|e| format!("{e:?}"))?;
        let kp = Builder::new(params).generate_keypair().map_err(|e| format!("{e:?}"))?;
        // independent check of the generated pair (C02/C18: consistent key pairs)
        let want = crate::prims::dh_pub(dh, &kp.private).ok_or("generated private key unusable")?;
        let (a, b) = (s.it.id(&kp.private), s.it.id(&kp.public));
        s.emit(json!({"ev": "key", "priv": a, "pub": b, "consistent": want == kp.public}));
        sks.push(kp.private);
        pks.push(kp.public);
    }
    let psk_idx: Vec<u8> = row["psks"].as_array().map(|a| a.iter().filter_map(|x| x.as_u64().map(|v| v as u8)).collect()).unwrap_or_default();
    let mismatch = profile == "mismatch";
    let psks: Vec<[u8; 32]> = (0..5).map(|_| {
        let mut k = [0u8; 32];
        for c in k.chunks_mut(8) {
            c.copy_from_slice(&r.next().to_le_bytes());
        }
        k
    }).collect();
    let plog_len = [0usize, 1, 9, 64, 65, 200][r.below(6) as usize];
    let plog: Vec<u8> = (0..plog_len).map(|_| r.next() as u8).collect();
    for who in 0..2 {
        let params: snow::params::NoiseParams = name.parse().map_err(|e| format!("{e:?}"))?;
        // real random source of the backend, recorded
        let resolver = RecResolver::new(Backend::Default, IDS[who], seed, false, log.clone());
        let mut b = Builder::with_resolver(params, Box::new(resolver));
        let mut my_plog = plog.clone();
        let mut my_psks = psks.clone();
        if mismatch && who == 1 {
            match r.below(2) {
                0 => my_plog.push(1),
                _ => my_psks[psk_idx.first().copied().unwrap_or(0) as usize][0] ^= 1,
            }
        }
        b = b.local_private_key(&sks[who]).map_err(|e| format!("{e:?}"))?;
        b = b.remote_public_key(&pks[1 - who]).map_err(|e| format!("{e:?}"))?;
        b = b.prologue(&my_plog).map_err(|e| format!("{e:?}"))?;
        let mut pskv = serde_json::Map::new();
        for n in 0..5u8 {
            if psk_idx.contains(&n) {
                b = b.psk(n, &my_psks[n as usize]).map_err(|e| format!("{e:?}"))?;
                pskv.insert(n.to_string(), json!(s.it.id(&my_psks[n as usize])));
            } else {
                pskv.insert(n.to_string(), json!(""));
            }
        }
        let built = if who == 0 { b.build_initiator() } else { b.build_responder() };
        let (sid, rsid, pid) = (s.it.id(&sks[who]), s.it.id(&pks[1 - who]), s.it.id(&my_plog));
        match built {
            Ok(h) => {
                s.eps[who] = Ep::Hs(Box::new(h));
                let obs = s.hs_obs(who);
                s.emit(json!({"ev": "build", "ep": IDS[who], "role": if who == 0 { "i" } else { "r" }, "s": sid, "rs": rsid,
                              "psk": pskv, "prologue": pid, "res": "ok", "obs": obs}));
            },
            Err(e) => {
                s.emit(json!({"ev": "build", "ep": IDS[who], "role": if who == 0 { "i" } else { "r" }, "s": sid, "rs": rsid,
                              "psk": pskv, "prologue": pid, "res": format!("{e:?}"), "obs": {}}));
                return Ok(());
            },
        }
    }
    let faulty = profile == "faulty";
    let mut wire: [Option<Vec<u8>>; 2] = [None, None]; // wire[i]: genuine message addressed to i, not yet read
    let steps = 12 + r.below(if profile == "long" { 400 } else { 40 });
    let mut sent_nonce: [u64; 2] = [0, 0];
    for _ in 0..steps {
        if profile == "threads" && matches!((&s.eps[0], &s.eps[1]), (Ep::Sl(_), Ep::Sl(_))) {
            break;
        }
        let mut who = r.below(2) as usize;
        // steer by the public indicators only
        if let (Ep::Hs(a), Ep::Hs(_)) = (&s.eps[0], &s.eps[1]) {
            if r.below(8) != 0 {
                who = if a.is_my_turn() == a.is_initiator() { 0 } else { 1 };
                if wire[1 - who].is_some() {
                    who = 1 - who;
                }
            }
        }
        let ep = std::mem::replace(&mut s.eps[who], Ep::Gone);
        match ep {
            Ep::Gone => {},
            Ep::Hs(mut h) => {
                let fin = h.is_handshake_finished();
                let do_fault = faulty && r.below(5) == 0;
                if fin && !do_fault {
                    // convert (both variants occur)
                    let stateful = profile != "threads" && r.below(2) == 0;
                    if stateful {
                        match h.into_transport_mode() {
                            Ok(t) => {
                                s.eps[who] = Ep::Tr(Box::new(t));
                                let obs = s.tr_obs(who);
                                s.emit(json!({"ev": "to_transport", "ep": IDS[who], "res": "ok", "obs": obs}));
                            },
                            Err(e) => s.emit(json!({"ev": "to_transport", "ep": IDS[who], "res": format!("{e:?}"), "obs": {}})),
                        }
                    } else {
                        match h.into_stateless_transport_mode() {
                            Ok(t) => {
                                s.eps[who] = Ep::Sl(Box::new(t));
                                let obs = s.tr_obs(who);
                                s.emit(json!({"ev": "to_stateless", "ep": IDS[who], "res": "ok", "obs": obs}));
                            },
                            Err(e) => s.emit(json!({"ev": "to_stateless", "ep": IDS[who], "res": format!("{e:?}"), "obs": {}})),
                        }
                    }
                    continue;
                }
                let reading = wire[who].is_some() && !(do_fault && r.below(2) == 0);
                if reading || (!h.is_my_turn() && do_fault) {
                    // read: the genuine message, or (faulty) an altered / truncated / junk one, or a small buffer
                    let genuine = wire[who].clone().unwrap_or_default();
                    let mut msg = genuine.clone();
                    let mut outlen = 70000usize;
                    let mut adv: Option<Value> = None;
                    if do_fault {
                        match r.below(4) {
                            0 if !msg.is_empty() => {
                                let off = r.below(msg.len() as u64) as usize;
                                msg[off] ^= 1 << r.below(8);
                                adv = Some(json!({"kind": "flip", "off": off}));
                            },
                            1 if !msg.is_empty() => {
                                let l = r.below(msg.len() as u64) as usize;
                                msg.truncate(l);
                                adv = Some(json!({"kind": "trunc", "len": l}));
                            },
                            2 => outlen = r.below(4) as usize,
                            _ => {
                                msg = (0..r.below(90)).map(|_| r.next() as u8).collect();
                                adv = Some(json!({"kind": "junk"}));
                            },
                        }
                    }
                    let (gid, mid) = (s.it.id(&genuine), s.it.id(&msg));
                    if let Some(mut a) = adv {
                        a["ev"] = json!("adv");
                        a["src"] = json!(gid);
                        a["out"] = json!(mid.clone());
                        a["outlen"] = json!(msg.len());
                        s.emit(a);
                    }
                    let mut buf = vec![0u8; outlen];
                    let rr = h.read_message(&msg, &mut buf);
                    let (res, n) = res_of(&rr);
                    let pid = if rr.is_ok() { s.it.id(&buf[..n.min(buf.len())]) } else { String::new() };
                    if rr.is_ok() && msg == genuine {
                        wire[who] = None;
                    }
                    s.eps[who] = Ep::Hs(h);
                    let obs = s.hs_obs(who);
                    s.emit(json!({"ev": "hs_read", "ep": IDS[who], "msg": mid, "mlen": msg.len(), "outlen": outlen, "res": res,
                                  "len": n, "payload": pid, "obs": obs}));
                } else {
                    // write: payload lengths small / boundary; (faulty) a too-small buffer
                    let plen = match r.below(6) {
                        0 => 0,
                        1 => 16,
                        2 => 17,
                        3 => 64,
                        _ => r.below(40) as usize,
                    };
                    let payload: Vec<u8> = (0..plen).map(|_| r.next() as u8).collect();
                    let buflen = if do_fault { r.below(120) as usize } else { 70000 };
                    let mut buf = vec![0u8; buflen];
                    let draws_before = log.lock().unwrap().ops.iter().filter(|o| matches!(o, Op::Rand { ep, .. } if ep == IDS[who])).count();
                    let rr = h.write_message(&payload, &mut buf);
                    let draws_after = log.lock().unwrap().ops.iter().filter(|o| matches!(o, Op::Rand { ep, .. } if ep == IDS[who])).count();
                    let (res, n) = res_of(&rr);
                    let (pid, oid) = (s.it.id(&payload), if rr.is_ok() { s.it.id(&buf[..n.min(buf.len())]) } else { String::new() });
                    if rr.is_ok() {
                        wire[1 - who] = Some(buf[..n].to_vec());
                    }
                    s.eps[who] = Ep::Hs(h);
                    let obs = s.hs_obs(who);
                    s.emit(json!({"ev": "hs_write", "ep": IDS[who], "payload": pid, "plen": plen, "buf": buflen, "res": res, "len": n,
                                  "out": oid, "draws": draws_after - draws_before, "obs": obs}));
                }
            },
            Ep::Tr(mut t) => {
                let a = r.below(if profile == "rekey" { 8 } else { 6 });
                match a {
                    0..=2 => {
                        let plen = r.below(50) as usize;
                        let payload: Vec<u8> = (0..plen).map(|_| r.next() as u8).collect();
                        let mut buf = vec![0u8; 70000];
                        let rr = t.write_message(&payload, &mut buf);
                        let (res, n) = res_of(&rr);
                        let (pid, oid) = (s.it.id(&payload), if rr.is_ok() { s.it.id(&buf[..n]) } else { String::new() });
                        if rr.is_ok() {
                            wire[1 - who] = Some(buf[..n].to_vec());
                        }
                        s.eps[who] = Ep::Tr(t);
                        let obs = s.tr_obs(who);
                        s.emit(json!({"ev": "t_write", "ep": IDS[who], "payload": pid, "plen": plen, "buf": 70000, "res": res, "len": n, "out": oid, "obs": obs}));
                    },
                    3..=5 => {
                        let msg = wire[who].clone().unwrap_or_else(|| (0..r.below(40)).map(|_| r.next() as u8).collect());
                        let genuine = wire[who].is_some();
                        let mid = s.it.id(&msg);
                        if !genuine {
                            s.emit(json!({"ev": "adv", "kind": "junk", "src": "", "out": mid.clone(), "outlen": msg.len()}));
                        }
                        let mut buf = vec![0u8; 70000];
                        let rr = t.read_message(&msg, &mut buf);
                        let (res, n) = res_of(&rr);
                        let pid = if rr.is_ok() { s.it.id(&buf[..n]) } else { String::new() };
                        if rr.is_ok() || r.below(2) == 0 {
                            wire[who] = None; // delivered, or lost
                        }
                        s.eps[who] = Ep::Tr(t);
                        let obs = s.tr_obs(who);
                        s.emit(json!({"ev": "t_read", "ep": IDS[who], "msg": mid, "mlen": msg.len(), "outlen": 70000, "res": res, "len": n, "payload": pid, "obs": obs}));
                    },
                    6 => {
                        t.rekey_outgoing();
                        s.eps[who] = Ep::Tr(t);
                        let obs = s.tr_obs(who);
                        s.emit(json!({"ev": "rekey_out", "ep": IDS[who], "res": "ok", "obs": obs}));
                    },
                    _ => {
                        t.rekey_incoming();
                        s.eps[who] = Ep::Tr(t);
                        let obs = s.tr_obs(who);
                        s.emit(json!({"ev": "rekey_in", "ep": IDS[who], "res": "ok", "obs": obs}));
                    },
                }
            },
            Ep::Sl(t) => {
                if r.below(2) == 0 {
                    let plen = r.below(50) as usize;
                    let payload: Vec<u8> = (0..plen).map(|_| r.next() as u8).collect();
                    let n64 = match r.below(5) {
                        0 => r.next(),
                        1 => u64::MAX - r.below(3),
                        _ => {
                            sent_nonce[who] = sent_nonce[who].wrapping_add(1);
                            sent_nonce[who]
                        },
                    };
                    let mut buf = vec![0u8; 70000];
                    let rr = t.write_message(n64, &payload, &mut buf);
                    let (res, n) = res_of(&rr);
                    let (pid, oid) = (s.it.id(&payload), if rr.is_ok() { s.it.id(&buf[..n]) } else { String::new() });
                    if rr.is_ok() {
                        wire[1 - who] = Some(buf[..n].to_vec());
                        sent_nonce[who] = n64; // remembered so that the peer can be told (application-level framing)
                    }
                    s.eps[who] = Ep::Sl(t);
                    let obs = s.tr_obs(who);
                    s.emit(json!({"ev": "s_write", "ep": IDS[who], "n": limbs(n64), "payload": pid, "plen": plen, "buf": 70000, "res": res, "len": n, "out": oid, "obs": obs}));
                } else {
                    let msg = wire[who].clone().unwrap_or_else(|| (0..r.below(40)).map(|_| r.next() as u8).collect());
                    let genuine = wire[who].is_some();
                    let mid = s.it.id(&msg);
                    if !genuine {
                        s.emit(json!({"ev": "adv", "kind": "junk", "src": "", "out": mid.clone(), "outlen": msg.len()}));
                    }
                    let n64 = if r.below(4) == 0 { r.next() } else { sent_nonce[1 - who] };
                    let mut buf = vec![0u8; 70000];
                    let rr = t.read_message(n64, &msg, &mut buf);
                    let (res, n) = res_of(&rr);
                    let pid = if rr.is_ok() { s.it.id(&buf[..n]) } else { String::new() };
                    s.eps[who] = Ep::Sl(t);
                    let obs = s.tr_obs(who);
                    s.emit(json!({"ev": "s_read", "ep": IDS[who], "n": limbs(n64), "msg": mid, "mlen": msg.len(), "outlen": 70000, "res": res, "len": n, "payload": pid, "obs": obs}));
                }
            },
        }
    }
    // C16: N threads share the two stateless objects; every call is validated on its own (stateless calls
    // change nothing, so the trace specification accepts them in any order: no cross-thread ordering is assumed).
    if profile == "threads" {
        let e0 = std::mem::replace(&mut s.eps[0], Ep::Gone);
        let e1 = std::mem::replace(&mut s.eps[1], Ep::Gone);
        if let (Ep::Sl(a), Ep::Sl(b)) = (e0, e1) {
            let objs = [std::sync::Arc::new(*a), std::sync::Arc::new(*b)];
            let it = std::sync::Mutex::new(std::mem::replace(&mut s.it, Interner { map: HashMap::new() }));
            let nthreads = 8usize;
            // phase 1: concurrent writes; phase 2: concurrent reads (right and wrong nonce, repeated) mixed with writes
            let written: std::sync::Mutex<Vec<(usize, u64, Vec<u8>)>> = std::sync::Mutex::new(vec![]);
            let mut phase_events: Vec<Vec<String>> = vec![];
            for phase in 0..2 {
                let evs: std::sync::Mutex<Vec<String>> = std::sync::Mutex::new(vec![]);
                let pool: Vec<(usize, u64, Vec<u8>)> = written.lock().unwrap().clone();
                std::thread::scope(|sc| {
                    for t in 0..nthreads {
                        let (objs, it, written, evs, pool) = (&objs, &it, &written, &evs, &pool);
                        let mut tr = Rng(seed ^ (idx << 8) ^ ((t as u64) << 4) ^ (phase as u64));
                        sc.spawn(move || {
                            let mut local = vec![];
                            for k in 0..30u64 {
                                let who = tr.below(2) as usize;
                                if phase == 0 || tr.below(3) == 0 {
                                    let plen = tr.below(60) as usize;
                                    let payload: Vec<u8> = (0..plen).map(|_| tr.next() as u8).collect();
                                    let n64 = match tr.below(6) {
                                        0 => u64::MAX - tr.below(2),
                                        1 => (1u64 << 32) + t as u64,
                                        2 => tr.next(),
                                        _ => (t as u64) * 1000 + k + (phase as u64) * 100_000,
                                    };
                                    let mut buf = vec![0u8; plen + 16];
                                    let rr = objs[who].write_message(n64, &payload, &mut buf);
                                    let (res, n) = res_of(&rr);
                                    let (pid, oid) = {
                                        let mut g = it.lock().unwrap();
                                        (g.id(&payload), if rr.is_ok() { g.id(&buf[..n]) } else { String::new() })
                                    };
                                    if rr.is_ok() && phase == 0 {
                                        written.lock().unwrap().push((who, n64, buf[..n].to_vec()));
                                    }
                                    local.push(json!({"ev": "s_write", "ep": IDS[who], "n": limbs(n64), "payload": pid, "plen": plen,
                                        "buf": plen + 16, "res": res, "len": n, "out": oid, "obs": {"stateful": false, "rso": ""}, "thread": t}).to_string());
                                } else if !pool.is_empty() {
                                    let (from, n64, msg) = pool[tr.below(pool.len() as u64) as usize].clone();
                                    let reader = if tr.below(8) == 0 { from } else { 1 - from }; // sometimes reflected to its sender
                                    let n_used = if tr.below(4) == 0 { n64 ^ (1u64 << tr.below(64)) } else { n64 };
                                    let mut buf = vec![0u8; msg.len()];
                                    let rr = objs[reader].read_message(n_used, &msg, &mut buf);
                                    let (res, n) = res_of(&rr);
                                    let (mid, pid) = {
                                        let mut g = it.lock().unwrap();
                                        (g.id(&msg), if rr.is_ok() { g.id(&buf[..n]) } else { String::new() })
                                    };
                                    local.push(json!({"ev": "s_read", "ep": IDS[reader], "n": limbs(n_used), "msg": mid, "mlen": msg.len(),
                                        "outlen": msg.len(), "res": res, "len": n, "payload": pid, "obs": {"stateful": false, "rso": ""}, "thread": t}).to_string());
                                }
                            }
                            evs.lock().unwrap().extend(local);
                        });
                    }
                });
                phase_events.push(evs.into_inner().unwrap());
            }
            for pe in phase_events {
                for e in pe {
                    s.out.push(e);
                }
            }
        }
    }
    let _ = s.publen;
    Ok(())
}

pub fn main(o: &Opts) -> Result<i32, String> {
    let names = read_tlc_json(o.req("names")?, "NAME")?;
    let seed = o.num("seed", 1);
    let sessions = o.num("sessions", 200);
    let profile = o.get("profile").unwrap_or("honest").to_string();
    let out = o.req("out")?;
    let mut f = std::io::BufWriter::new(std::fs::File::create(out).map_err(|e| e.to_string())?);
    let mut r = Rng(seed ^ 0x7ace);
    let mut events = 0usize;
    for i in 0..sessions {
        // every name is reachable; thorough runs walk the whole table
        let row = if o.flag("all-names") { &names[(i as usize) % names.len()] } else { &names[r.below(names.len() as u64) as usize] };
        let mut lines = vec![];
        // a panic in the code under test is data: the trace ends with an event no action of the trace
        // specification explains, so validation rejects it there
        let res = std::panic::catch_unwind(std::panic::AssertUnwindSafe(|| run_session(row, &profile, seed, i, &mut lines)));
        match res {
            Ok(r) => r?,
            Err(p) => {
                let msg = p.downcast_ref::<&str>().map(|s| s.to_string()).or_else(|| p.downcast_ref::<String>().cloned()).unwrap_or_default();
                lines.push(json!({"ev": "panic", "what": msg}).to_string());
            },
        }
        for l in &lines {
            writeln!(f, "{l}").map_err(|e| e.to_string())?;
        }
        events += lines.len();
    }
    f.flush().map_err(|e| e.to_string())?;
    println!("{}", json!({"sessions": sessions, "events": events, "profile": profile}));
    Ok(0)
}
