use serde_json::Value;
use std::collections::HashMap;
use std::io::{BufRead, BufReader};

pub struct Opts {
    pub kv: HashMap<String, String>,
}

impl Opts {
    pub fn parse(args: &[String]) -> Self {
        let mut kv = HashMap::new();
        let mut i = 0;
        while i < args.len() {
            if let Some(k) = args[i].strip_prefix("--") {
                if i + 1 < args.len() && !args[i + 1].starts_with("--") {
                    kv.insert(k.to_string(), args[i + 1].clone());
                    i += 2;
                } else {
                    kv.insert(k.to_string(), "true".to_string());
                    i += 1;
                }
            } else {
                i += 1;
            }
        }
        Opts { kv }
    }
    pub fn get(&self, k: &str) -> Option<&str> {
        self.kv.get(k).map(|s| s.as_str())
    }
    pub fn req(&self, k: &str) -> Result<&str, String> {
        self.get(k).ok_or_else(|| format!("missing --{k}"))
    }
    pub fn num(&self, k: &str, d: u64) -> u64 {
        self.get(k).and_then(|s| s.parse().ok()).unwrap_or(d)
    }
    pub fn flag(&self, k: &str) -> bool {
        self.get(k).map(|s| s == "true" || s == "1").unwrap_or(false)
    }
}

/// Lines that TLC printed with PrintT(<<"TAG", ToJson(x)>>): returns the parsed JSON of x.
pub fn read_tlc_json(path: &str, tag: &str) -> Result<Vec<Value>, String> {
    let f = std::fs::File::open(path).map_err(|e| format!("{path}: {e}"))?;
    let prefix = format!("<<\"{tag}\", ");
    let mut out = vec![];
    for line in BufReader::with_capacity(1 << 20, f).lines() {
        let line = line.map_err(|e| e.to_string())?;
        if let Some(rest) = line.strip_prefix(&prefix) {
            let inner = rest.strip_suffix(">>").ok_or("TLC line without >>")?;
            let s: String = serde_json::from_str(inner).map_err(|e| format!("TLC string: {e}"))?;
            let v: Value = serde_json::from_str(&s).map_err(|e| format!("TLC json: {e}"))?;
            out.push(v);
        }
    }
    Ok(out)
}

/// splitmix64: all harness randomness derives from VERIF_SEED through this.
pub struct Rng(pub u64);
impl Rng {
    pub fn next(&mut self) -> u64 {
        self.0 = self.0.wrapping_add(0x9E3779B97F4A7C15);
        let mut z = self.0;
        z = (z ^ (z >> 30)).wrapping_mul(0xBF58476D1CE4E5B9);
        z = (z ^ (z >> 27)).wrapping_mul(0x94D049BB133111EB);
        z ^ (z >> 31)
    }
    pub fn below(&mut self, n: u64) -> u64 {
        if n == 0 {
            0
        } else {
            self.next() % n
        }
    }
}

pub fn sha_hex(data: &[u8]) -> String {
    hex::encode(&crate::prims::hash(crate::prims::HashAlg::Sha256, &[data])[..8])
}
