#!/bin/bash
cd "$(dirname "$0")/.."
for seed in "$@"; do
for p in C01 C02 C03 C04 C05 C06 C07 C08 C09 C10 C11 C12 C13 C14 C15 C16 C17 C18 C19 C20; do
  out=$(VERIF_SEED=$seed ./check $p 2>&1); rc=$?
  echo "seed=$seed $p rc=$rc $(echo "$out" | grep -c '^VIOLATION') $(echo "$out" | grep -e 'quick:' | cut -c1-120)"
  if [ $rc -ne 0 ]; then echo "$out" | grep -e "VIOLATION\|TOOL\|\]   " | head -5 | cut -c1-300; fi
done
done
echo ALLDONE
