#!/bin/bash
# usage: lib/allthorough.sh [ids...]  - thorough tier of the listed (default: all) properties, one after the other
cd "$(dirname "$0")/.."
ids=("$@"); [ ${#ids[@]} -eq 0 ] && ids=(C18 C12 C13 C03 C08 C17 C11 C20 C15 C04 C09 C05 C19 C14 C06 C10 C16 C02 C07 C01)
for p in "${ids[@]}"; do
  /usr/bin/time -f "THOROUGH $p %es" ./check $p --tier thorough 2>&1 | grep -e "THOROUGH\|thorough:\|TOOL-ERROR\|VIOLATION\|KNOWN" | cut -c1-300
done
echo ALLDONE
