"""Shared helpers of the ./check driver: running TLC, building/running the harness,
known-findings handling, evidence files.  No protocol logic here either: this file only
moves files between TLC and the harness and counts."""
import hashlib
import json
import os
import re
import subprocess
import sys
import time

ROOT = os.path.dirname(os.path.dirname(os.path.abspath(__file__)))
SPEC = os.path.join(ROOT, "spec")
WORK = os.path.join(ROOT, "work")
HARNESS = os.path.join(ROOT, "harness")
BIN = os.path.join(HARNESS, "target", "release", "snowverif")
BIN_HFS = os.path.join(HARNESS, "target-hfs", "release", "snowverif")   # harness built against the hfs build of the crate
REPLAYS = os.path.join(ROOT, "replays")
EVIDENCE = os.path.join(ROOT, "evidence")
VECTORS = "/repo/tests/vectors/cacophony.txt"

ALL_PATTERNS = ["N", "K", "X", "NN", "NK", "NX", "XN", "XK", "XX", "KN", "KK", "KX", "IN", "IK", "IX",
                "NK1", "NX1", "X1N", "X1K", "XK1", "X1K1", "X1X", "XX1", "X1X1", "K1N", "K1K", "KK1",
                "K1K1", "K1X", "KX1", "K1X1", "I1N", "I1K", "IK1", "I1K1", "I1X", "IX1", "I1X1"]


class ToolError(Exception):
    pass


_T0 = time.time()


def log(msg):
    print(f"[check +{time.time() - _T0:5.0f}s] {msg}", file=sys.stderr, flush=True)


def tla_set(items):
    return "{" + ",".join(tla_val(x) for x in items) + "}"


class Raw(str):
    """a TLA+ expression passed through verbatim as a constant's value"""


def tla_val(v):
    if isinstance(v, Raw):
        return str(v)
    if isinstance(v, bool):
        return "TRUE" if v else "FALSE"
    if isinstance(v, str):
        return json.dumps(v)
    if isinstance(v, (list, tuple, set)):
        return tla_set(list(v))
    return str(v)


def spec_digest():
    h = hashlib.sha256()
    for f in sorted(os.listdir(SPEC)):
        if f.endswith(".tla"):
            h.update(open(os.path.join(SPEC, f), "rb").read())
    return h.hexdigest()[:16]


def run_tlc(module, consts, invariants=(), name=None, workers=8, timeout=1800, extra_cfg="", spec="Spec",
            simulate=None, heap="8g", properties=(), view=None, constraint=None, action_constraint=None,
            check_deadlock=False, queue=None):
    """Run TLC on spec/<module>.tla with a generated cfg. Returns dict(out=path, states, distinct, wall_s)."""
    name = name or module
    if consts and "FullRollback" in consts:
        consts = dict(consts)
        consts.setdefault("KeepHist", True)
    d = os.path.join(WORK, name)
    os.makedirs(d, exist_ok=True)
    cfg = os.path.join(d, f"{name}.cfg")
    with open(cfg, "w") as f:
        f.write(f"SPECIFICATION {spec}\n")
        if consts:
            f.write("CONSTANTS\n")
            for k, v in consts.items():
                f.write(f" {k} = {tla_val(v)}\n")
        for inv in invariants:
            f.write(f"INVARIANT {inv}\n")
        for p in properties:
            f.write(f"PROPERTY {p}\n")
        if view:
            f.write(f"VIEW {view}\n")
        if constraint:
            f.write(f"CONSTRAINT {constraint}\n")
        if action_constraint:
            f.write(f"ACTION_CONSTRAINT {action_constraint}\n")
        f.write(f"CHECK_DEADLOCK {'TRUE' if check_deadlock else 'FALSE'}\n")
        f.write(extra_cfg)
    out = os.path.join(d, f"{name}.out")
    cmd = ["timeout", "-k", "30", str(timeout), "tlc", "-workers", str(workers), "-metadir", os.path.join(d, "meta"),
           "-cleanup", "-noGenerateSpecTE", "-config", cfg]
    if simulate:
        cmd += ["-simulate", simulate]
    cmd += [os.path.join(SPEC, module + ".tla")]
    env = dict(os.environ)
    # TLC/SANY scratch directories go under the run's own work directory (removed below), not /tmp
    jtmp = os.path.join(WORK, "jtmp", re.sub(r"\W+", "_", name))      # (no spaces: JAVA_TOOL_OPTIONS is split on them)
    os.makedirs(jtmp, exist_ok=True)
    env["JAVA_TOOL_OPTIONS"] = (f"-Xmx{heap} -Xss512m -Djava.io.tmpdir={jtmp}"
                                + (f" -Dtlc2.tool.queue.IStateQueue={queue}" if queue else ""))
    t0 = time.time()
    with open(out, "w") as fo:
        p = subprocess.run(cmd, stdout=fo, stderr=subprocess.STDOUT, cwd=SPEC, env=env)
    wall = time.time() - t0
    subprocess.run(["rm", "-rf", os.path.join(d, "meta"), jtmp])
    txt_tail = subprocess.run(["grep", "-v", "-e", '^<<"', out], capture_output=True, text=True).stdout
    if p.returncode in (124, 137):
        raise ToolError(f"TLC timed out on {name}")
    m = re.search(r"(\d+) states generated, (\d+) distinct states found", txt_tail)
    violated = "is violated" in txt_tail or "Error:" in txt_tail
    if p.returncode != 0 or violated or not (m or simulate):
        # a violated model invariant is a defect of the MODEL run (design-level finding), never a
        # VIOLATION of the code: report as tool error with the tail of the log
        errs = "\n".join(l for l in txt_tail.splitlines() if l.startswith("Error:"))[:600]
        tail = "\n".join(l for l in txt_tail.splitlines() if not l.startswith(("Parsing", "Semantic", "Linting")))[-2500:]
        raise ToolError(f"TLC failed on {name} (rc={p.returncode}):\n{errs}\n...\n{tail}")
    states = int(m.group(1)) if m else 0
    distinct = int(m.group(2)) if m else 0
    log(f"TLC {name}: {distinct} distinct / {states} generated in {wall:.0f}s")
    return dict(out=out, states=states, distinct=distinct, wall_s=round(wall, 1), name=name)


def session_consts(**over):
    """Constants of spec/MC_Session.tla; defaults = the honest session over all 38 base patterns."""
    c = dict(FullRollback=True, PatSet=ALL_PATTERNS, PskMode="none", PubLens=[32, 65], InitPads=[True, False],
             Profiles=["small"], BufModes=["big"], Variants=["tr", "sl"], FixedEs=[False], TrafficMode="mixed",
             FaultBudget=0, FaultKinds=["wbuf", "wmax", "turn", "ralt", "rtrunc", "rext", "rstale", "routbuf"],
             LatePsk=False, OverwritePsk=False, TamperBudget=0, Mismatches=["none"], ExtraPsks=[False], ExtraRs=[False], ExtraRsOther=False, OddNames=False, Hfs=False, EarlySplit=False, Emit=True)
    c.update(over)
    return c


def count_lines(path, tag):
    r = subprocess.run(["grep", "-c", f'^<<"{tag}"', path], capture_output=True, text=True)
    return int(r.stdout.strip() or 0)


def build_harness():
    """(Re)build the harness against /repo's current working tree."""
    t0 = time.time()
    env = dict(os.environ)
    env["CARGO_NET_OFFLINE"] = "true"
    p = subprocess.run(["cargo", "build", "--release", "--offline"], cwd=HARNESS, env=env,
                       stdout=subprocess.PIPE, stderr=subprocess.STDOUT, text=True)
    if p.returncode != 0:
        raise ToolError("harness build failed (does /repo still compile?):\n" + p.stdout[-3000:])
    log(f"harness built in {time.time() - t0:.1f}s")


_hfs_built = False


def build_harness_hfs():
    """(Re)build the second harness: /repo with features hfs + use-pqcrypto-kyber1024 (own target directory)."""
    global _hfs_built
    if _hfs_built:
        return
    t0 = time.time()
    env = dict(os.environ)
    env["CARGO_NET_OFFLINE"] = "true"
    p = subprocess.run(["cargo", "build", "--release", "--offline", "--features", "hfs", "--target-dir", "target-hfs"],
                       cwd=HARNESS, env=env, stdout=subprocess.PIPE, stderr=subprocess.STDOUT, text=True)
    if p.returncode != 0:
        raise ToolError("hfs harness build failed (does /repo still compile with features hfs,use-pqcrypto-kyber1024?):\n"
                        + p.stdout[-3000:])
    _hfs_built = True
    log(f"hfs harness built in {time.time() - t0:.1f}s")


def harness(args, timeout=3600, hfs=False):
    """Run the harness; returns (rc, stdout). rc 0 ok, 1 violations, 2 tool error."""
    if hfs:
        build_harness_hfs()
    p = subprocess.run(["timeout", str(timeout), BIN_HFS if hfs else BIN] + args, cwd=ROOT, stdout=subprocess.PIPE,
                       stderr=subprocess.PIPE, text=True)
    if p.returncode not in (0, 1):
        raise ToolError(f"harness {' '.join(args[:3])} failed rc={p.returncode}: {p.stderr[-2000:]} {p.stdout[-500:]}")
    return p.returncode, p.stdout


def name_table():
    """TLC-computed table name -> class for all 13 344 names (cached per spec digest)."""
    dg = spec_digest()
    path = os.path.join(WORK, "cache", f"names-{dg}.out")
    if os.path.exists(path) and count_lines(path, "NAME") == 13344:
        return path
    os.makedirs(os.path.dirname(path), exist_ok=True)
    r = run_tlc("MC_NameTable", {"PatSetN": ALL_PATTERNS, "HfsN": False}, invariants=["TableOk"], name="nametable", workers=1,
                timeout=600)
    n = count_lines(r["out"], "NAME")
    if n != 13344:
        raise ToolError(f"name table has {n} rows, expected 13344")
    os.replace(r["out"], path)
    return path


def name_table_hfs():
    """The names of the hfs build (interactive patterns, hfs before/after the psk modifiers, Kyber1024)."""
    dg = spec_digest()
    path = os.path.join(WORK, "cache", f"names-hfs-{dg}.out")
    if os.path.exists(path) and count_lines(path, "NAME") > 0:
        return path
    os.makedirs(os.path.dirname(path), exist_ok=True)
    r = run_tlc("MC_NameTable", {"PatSetN": ALL_PATTERNS, "HfsN": True}, invariants=["TableOk"], name="nametable-hfs",
                workers=1, timeout=900)
    n = count_lines(r["out"], "NAME")
    if n == 0:
        raise ToolError("hfs name table is empty")
    os.replace(r["out"], path)
    return path


def anchor():
    """The specification's transcripts must reproduce the Cacophony vectors (cached per spec+harness digest)."""
    dg = spec_digest()
    h = hashlib.sha256()
    for f in sorted(os.listdir(os.path.join(HARNESS, "src"))):
        h.update(open(os.path.join(HARNESS, "src", f), "rb").read())
    stamp = os.path.join(WORK, "cache", f"anchor-{dg}-{h.hexdigest()[:12]}.ok")
    if os.path.exists(stamp):
        return json.load(open(stamp))
    names = name_table()
    r = run_tlc("MC_Session", session_consts(PskMode="single", PubLens=[32], Variants=["tr"], FixedEs=[True],
                                             TrafficMode="alternate"),
                invariants=["Inv", "EmitInv"], name="anchor", timeout=900)
    rc, out = harness(["anchor", "--scn", r["out"], "--names", names, "--vectors", VECTORS])
    if rc != 0:
        raise ToolError("Cacophony anchor failed: " + out[-1000:])
    info = json.loads(out.strip().splitlines()[-1])
    os.remove(r["out"])
    os.makedirs(os.path.dirname(stamp), exist_ok=True)
    json.dump(info, open(stamp, "w"))
    log(f"anchor ok: {info}")
    return info


# ---------------------------------------------------------------- known findings
def load_known():
    p = os.path.join(ROOT, "known_findings.json")
    if not os.path.exists(p):
        return []
    return json.load(open(p))


def signature(prop, v):
    """What identifies a violation for the known-findings file: the property, the call, which
    observable differs, and the model's cause label."""
    return dict(property=prop, op=v.get("op", ""), what=v.get("what", ""), cause=v.get("cause", ""))


def matches(entry, prop, v):
    if entry.get("status") != "known" or entry.get("property") != prop:
        return False
    sig = entry.get("signature", {})
    for k, want in sig.items():
        got = v.get(k, "")
        if isinstance(want, list):
            if got not in want:
                return False
        elif got != want:
            return False
    return True


def report(prop, violations):
    """Print KNOWN-FINDING / VIOLATION lines. Returns number of unlisted violations."""
    known = load_known()
    new = 0
    seen_known = set()
    for v in violations:
        hit = None
        for e in known:
            if matches(e, prop, v):
                hit = e
                break
        if hit is not None:
            key = hit.get("id", json.dumps(hit.get("signature")))
            if key not in seen_known:
                seen_known.add(key)
                print(f"KNOWN-FINDING: property={prop} {hit.get('note', '')}")
        else:
            new += 1
            print(f"VIOLATION property={prop} replay={v.get('replay', '')}")
            log(f"  {v.get('op')} {v.get('what')} cause={v.get('cause')} name={v.get('name')} expected={str(v.get('expected'))[:80]} observed={str(v.get('observed'))[:80]}")
    return new


def write_evidence(prop, tier, seed, level, coverage, wall_s, violations, assumptions):
    os.makedirs(EVIDENCE, exist_ok=True)
    ev = dict(property_id=prop, tier=tier, seed=int(seed), level=level, coverage=coverage,
              assumptions=assumptions, wall_s=round(wall_s, 1), violations=int(violations))
    with open(os.path.join(EVIDENCE, f"{prop}.json"), "w") as f:
        json.dump(ev, f, indent=1)
