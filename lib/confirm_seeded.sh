#!/bin/bash
# usage: lib/confirm_seeded.sh <out-file> <id[=patch-override]>...
# Confirms seeded changes in the scratch worktree /tmp/wt/rebase at /repo's HEAD (never in /repo):
#   demo passes on the unchanged tree, the pinned suite passes with the change, demo fails with the change.
mkdir -p /tmp/wt
[ -d /tmp/wt/rebase ] || git -C /repo worktree add -q --detach /tmp/wt/rebase HEAD
cd /tmp/wt/rebase || exit 2
git checkout -q -- . ; git clean -fdq -e target
git checkout -q --detach "$(git -C /repo rev-parse HEAD)"
export CARGO_TARGET_DIR=/tmp/wt/rebase/target
out=$1; shift; : > "$out"
for a in "$@"; do
  id=${a%%=*}; p=/verif/seeded/$id/patch.diff; [ "$a" != "$id" ] && p=${a#*=}
  d=/verif/seeded/$id
  feats=$(python3 -c "import json;print(json.load(open('$d/meta.json')).get('demo_features','') or '')" 2>/dev/null)
  fa=""; [ -n "$feats" ] && fa="--features \"$feats\""
  git checkout -q -- . ; git clean -fdq -e target
  cp $d/demo.rs tests/demo.rs
  eval cargo test --offline --test demo $fa > /tmp/wt/confirm_log1.txt 2>&1; base_demo=$?
  rm -f tests/demo.rs
  if ! git apply $p 2>/dev/null; then echo "$id APPLY-FAIL" >> "$out"; continue; fi
  cargo test --offline > /tmp/wt/confirm_log2.txt 2>&1; suite=$?
  npass=$(grep -h "^test result: ok" /tmp/wt/confirm_log2.txt | awk '{s+=$4} END{print s}')
  cp $d/demo.rs tests/demo.rs
  eval cargo test --offline --test demo $fa > /tmp/wt/confirm_log3.txt 2>&1; mut_demo=$?
  rm -f tests/demo.rs
  echo "$id base_demo_rc=$base_demo suite_rc=$suite suite_passed=$npass mutant_demo_rc=$mut_demo features='$feats'" >> "$out"
done
git checkout -q -- . ; git clean -fdq -e target
echo DONE >> "$out"
