#!/bin/bash
# Runs EVERY seeded change against its own property's quick check (plus the cross checks listed in
# seeded/CROSS.txt) in three scratch copies in parallel and assembles seeded/SWEEP.md.
cd /verif
ids=($(ls seeded | grep -E '^C[0-9]+-'))
n=${#ids[@]}
declare -a L1 L2 L3
i=0
for id in "${ids[@]}"; do
  props=$(python3 -c "import json;print(json.load(open('seeded/$id/meta.json'))['property'])")
  extra=$(grep -E "^$id " seeded/CROSS.txt 2>/dev/null | cut -d' ' -f2)
  [ -n "$extra" ] && props="$props,$extra"
  case $((i % 3)) in 0) L1+=("$id:$props");; 1) L2+=("$id:$props");; 2) L3+=("$id:$props");; esac
  i=$((i+1))
done
lib/sweep.sh 1 "${L1[@]}" &
lib/sweep.sh 2 "${L2[@]}" &
lib/sweep.sh 3 "${L3[@]}" &
wait
python3 lib/sweep_report.py
