#!/usr/bin/env python3
"""usage: lib/import_round.py <round> <dir> <Cxx>...   - copies <dir>/<Cxx>/out/{A,B} into seeded/<Cxx>-<round>{A,B} (meta.json from notes.json)"""
import json, os, shutil, sys
rnd, d = sys.argv[1], sys.argv[2]
for pid in sys.argv[3:]:
    for ab in "AB":
        src = os.path.join(d, pid, "out", ab)
        if not os.path.exists(os.path.join(src, "patch.diff")):
            print("missing", src); continue
        sid = f"{pid}-{rnd}{ab}"
        dst = os.path.join("/verif/seeded", sid)
        os.makedirs(dst, exist_ok=True)
        shutil.copy(os.path.join(src, "patch.diff"), dst)
        shutil.copy(os.path.join(src, "demo.rs"), dst)
        try:
            n = json.load(open(os.path.join(src, "notes.json")))
        except Exception as e:
            n = {"summary": "", "needs": "", "demo_features": "", "agent_ran": [], "notes_error": str(e)}
        meta = dict(id=sid, property=pid, summary=n.get("summary", ""), needs=n.get("needs", ""),
                    demo_features=n.get("demo_features", "") or "",
                    origin="written by an independent sub-agent that was given only the property text and a scratch worktree of /repo's HEAD "
                           f"(round {rnd}: data-dependent changes - manifest only for particular lengths, counter values, byte patterns)",
                    agent_ran=n.get("agent_ran", []))
        json.dump(meta, open(os.path.join(dst, "meta.json"), "w"), indent=1)
        print("imported", sid)
