"""Per-property checks: which TLC configurations own the property, with which bounds per
tier, and how their scenarios are replayed / their traces validated."""
import hashlib
import json
import os
import random

from common import *  # noqa

BASE = ALL_PATTERNS


def replay(prop, tlc, seed, per_scn, backends="default", threads=12, dh=None, extra=(), hfs=False):
    names = name_table_hfs() if hfs else name_table()
    resf = os.path.join(WORK, tlc["name"], "result.json")
    args = ["replay", "--prop", prop, "--scn", tlc["out"], "--names", names, "--seed", str(seed),
            "--per-scn", str(per_scn), "--backends", backends, "--threads", str(threads),
            "--result", resf, "--replay-dir", REPLAYS] + list(extra)
    if dh:
        args += ["--dh", dh]
    rc, out = harness(args, hfs=hfs)
    res = json.load(open(resf))
    log(f"replay {tlc['name']}: {res['instances']} instances, {res['calls']} calls, {res.get('violations_total', 0)} violations")
    os.remove(tlc["out"])       # scenario dumps are large; the replay files keep what matters
    return res


def _sum_hist(reps):
    h = {}
    for r in reps:
        for k, v in r.get("cause_histogram", {}).items():
            h[k] = h.get(k, 0) + v
    return h


def require_causes(res, needed):
    """Vacuity guard: the enumeration must really contain the failure causes the property is about."""
    have = res["coverage"].get("failing_calls_by_cause", {})
    missing = [c for c in needed if have.get(c, 0) == 0]
    if missing:
        raise ToolError(f"vacuous enumeration: no scenario with cause(s) {missing}")
    return res


_EXTRA = None      # (tlc runs, replay results, rule suffix) of the hfs-build legs of the property being checked


def merge(level, tlcs, reps, rule, assumptions, extra_cov=None):
    global _EXTRA
    if _EXTRA:
        tlcs, reps, rule = list(tlcs) + _EXTRA[0], list(reps) + _EXTRA[1], rule + _EXTRA[2]
        extra_cov = dict(extra_cov or {}, hfs_build_instances=sum(r["instances"] for r in _EXTRA[1]))
        _EXTRA = None
    viol = []
    for r in reps:
        viol += r["violations"]
    cov = dict(
        states=sum(t["distinct"] for t in tlcs),
        transitions=sum(t["states"] for t in tlcs),
        traces_validated_against_impl=sum(r["instances"] for r in reps),
        samples=[s for r in reps for s in r["samples"]][:6],
        scenarios_from_tlc=sum(r["scenarios"] for r in reps),
        api_calls_compared=sum(r["calls"] for r in reps),
        distinct_protocol_names=sum(r["distinct_names"] for r in reps),
        evaluations=sum(r["instances"] for r in reps),
        distinct_nontrivial=sum(r["distinct_cases"] for r in reps),
        violations_total=sum(r.get("violations_total", 0) for r in reps),
        failing_calls_by_cause=_sum_hist(reps),
        rule=rule,
        tlc_runs=[dict(config=t["name"], states=t["distinct"], transitions=t["states"], wall_s=t["wall_s"]) for t in tlcs],
        anchor="spec transcripts reproduce 472/472 Cacophony vectors (checked before this run)",
    )
    if extra_cov:
        cov.update(extra_cov)
    return dict(level=level, coverage=cov, violations=viol, assumptions=assumptions)


ASSUME_SYMBOLIC = [
    "symbolic cryptography: distinct terms denote distinct byte strings; AEAD unforgeable; DH commutative",
    "third-party primitive crates (sha2, blake2, chacha20poly1305, aes-gcm, x25519-dalek, p256) are the trusted base, "
    "cross-checked against ring where both exist and against the Cacophony vectors",
    "the specification is a transcription of Noise rev 34 anchored to the Cacophony vectors (independent Haskell implementation)",
]


def session(name, invariants=("Inv", "EmitInv"), timeout=3000, **over):
    return run_tlc("MC_Session", session_consts(**over), invariants=list(invariants), name=name, timeout=timeout)


RULE_D1 = ("TLC enumerates the behaviours of spec/MC_Session.tla for the stated constants and emits each as a scenario "
           "(calls with concrete lengths + expected result class, lengths, flags, nonces and symbolic bytes); every scenario "
           "is replayed on the real code for concrete protocol names of its class; distinct = distinct (scenario, name) pairs; ")


def validate_trace(path, name):
    """Validate an NDJSON trace with spec/SnowTrace.tla. Returns (events, rejected_line_or_None, event)."""
    os.environ["TRACE_FILE"] = path
    try:
        t = run_tlc("SnowTrace", dict(FullRollback=True, KeepHist=False), name=name, workers=1, timeout=3000,
                    spec="TraceSpec", constraint="Progress", extra_cfg="POSTCONDITION TraceAccepted\n",
                    queue="StateDeque")
    finally:
        del os.environ["TRACE_FILE"]
    acc = [ln for ln in open(t["out"]) if ln.startswith('<<"ACCEPTED"')]
    rej = [ln for ln in open(t["out"]) if ln.startswith('<<"REJECTED"')]
    if acc:
        return t, None, None
    if not rej:
        raise ToolError("trace validation produced neither ACCEPTED nor REJECTED")
    info = json.loads(json.loads(rej[0].strip()[len('<<"REJECTED", '):-2]))
    return t, info["line"], info["event"]


def d2(prop, profile, sessions, seed, all_names=False, hfs=False):
    """Leg D2: record a trace from real executions and validate it against the trace specification."""
    names = name_table_hfs() if hfs else name_table()
    d = os.path.join(WORK, f"{prop.lower()}-d2-{profile}" + ("-hfs" if hfs else ""))
    os.makedirs(d, exist_ok=True)
    nd = os.path.join(d, "trace.ndjson")
    args = ["trace", "--names", names, "--seed", str(seed), "--sessions", str(sessions), "--profile", profile, "--out", nd]
    if all_names:
        args.append("--all-names")
    rc, out = harness(args, hfs=hfs)
    info = json.loads(out.strip().splitlines()[-1])
    t, line, ev = validate_trace(nd, f"{prop.lower()}-d2-{profile}" + ("-hfs" if hfs else ""))
    viol = []
    lines = open(nd).read().splitlines()
    if line is not None:
        start = max(k for k in range(line) if json.loads(lines[k])["ev"] == "session")
        os.makedirs(os.path.join(REPLAYS, prop), exist_ok=True)
        p = os.path.join(REPLAYS, prop, "trace-" + hashlib.sha256("\n".join(lines[start:line]).encode()).hexdigest()[:12] + ".ndjson")
        open(p, "w").write("\n".join(lines[start:line]) + "\n")
        sess = json.loads(lines[start])
        viol.append(dict(op=ev.get("ev", ""), what="trace_rejected", cause=profile, expected="a behaviour of spec/SnowTrace.tla",
                         observed=json.dumps(ev)[:300], replay=p, name=sess.get("name", "")))
    samples = [json.loads(x) for x in lines[3:6]]
    os.remove(nd)
    log(f"D2 {profile}: {info['sessions']} sessions, {info['events']} events, {'REJECTED at %s' % line if line else 'accepted'}")
    return dict(tlc=t, sessions=info["sessions"], events=info["events"], violations=viol, samples=samples,
                profile=profile + (" (hfs build)" if hfs else ""))


def d2_repo_tests(prop):
    """Leg D2, source (d): the repository's own tests (tests/general.rs, unmodified) run against the logging
    facade crate (facade/, library name `snow`); every public call they make is validated by the trace spec."""
    import glob
    import subprocess
    fac = os.path.join(ROOT, "facade")
    d = os.path.join(WORK, f"{prop.lower()}-d2-repotests")
    subprocess.run(["rm", "-rf", d])
    os.makedirs(d, exist_ok=True)
    env = dict(os.environ)
    env.update(VERIF_TRACE_DIR=d, VERIF_NAMES=name_table(), CARGO_NET_OFFLINE="true")
    p = subprocess.run(["cargo", "test", "--offline", "--test", "general"], cwd=fac, env=env, capture_output=True, text=True)
    if "error: could not compile" in p.stderr or "error[" in p.stderr:
        log("D2 repo-tests: the upstream tests do not compile against the facade any more - source skipped")
        return None
    files = sorted(glob.glob(os.path.join(d, "*.ndjson")))
    if not files:
        log("D2 repo-tests: no traces recorded - source skipped")
        return None
    nd = os.path.join(d, "all.trace")
    with open(nd, "w") as f:
        for fn in files:
            f.write(open(fn).read())
    t, line, ev = validate_trace(nd, f"{prop.lower()}-d2-repotests-tlc")
    lines = open(nd).read().splitlines()
    viol = []
    if line is not None:
        start = max(k for k in range(line) if json.loads(lines[k])["ev"] == "session")
        os.makedirs(os.path.join(REPLAYS, prop), exist_ok=True)
        pth = os.path.join(REPLAYS, prop, "trace-repotests-" + hashlib.sha256("\n".join(lines[start:line]).encode()).hexdigest()[:12] + ".ndjson")
        open(pth, "w").write("\n".join(lines[start:line]) + "\n")
        viol.append(dict(op=ev.get("ev", ""), what="trace_rejected", cause="repo-tests", expected="a behaviour of spec/SnowTrace.tla",
                         observed=json.dumps(ev)[:300], replay=pth, name=json.loads(lines[start]).get("name", "")))
    log(f"D2 repo-tests: {len(files)} upstream tests, {len(lines)} events, {'REJECTED at %s' % line if line else 'accepted'}")
    return dict(tlc=t, sessions=len(files), events=len(lines), violations=viol,
                samples=[json.loads(x) for x in lines[3:5]], profile="repo-tests(tests/general.rs through facade)")


def add_d2(res, d2s):
    c = res["coverage"]
    c["d2_traces"] = [dict(profile=x["profile"], sessions=x["sessions"], events=x["events"]) for x in d2s]
    c["traces_validated_against_impl"] = c.get("traces_validated_against_impl", 0) + sum(x["sessions"] for x in d2s)
    c["evaluations"] = c.get("evaluations", 0) + sum(x["events"] for x in d2s)
    c["states"] = c.get("states", 0) + sum(x["tlc"]["distinct"] for x in d2s)
    c["transitions"] = c.get("transitions", 0) + sum(x["tlc"]["states"] for x in d2s)
    c["samples"] = c.get("samples", [])[:4] + [dict(d2_event=s) for x in d2s for s in x["samples"][:1]]
    c["rule"] = c.get("rule", "") + ("; D2: protocol-agnostic random drivers (real OsRng, keys from generate_keypair) record one event "
                                    "per public call; spec/SnowTrace.tla re-executes the specification's actions on the logged "
                                    "arguments and requires the logged result/lengths/flags/nonces, with a functional+injective "
                                    "binding between logged value-ids and predicted terms")
    for x in d2s:
        res["violations"] += x["violations"]
    return res


def c01(tier, seed):
    if tier == "quick":
        t = session("c01-honest", PskMode="single")
        r = replay("C01", t, seed, 2)
        t2 = session("c01-honest-ring", PskMode="single", PubLens=[32], Variants=["tr"])
        r2 = replay("C01", t2, seed, 1, backends="mix-sample")
        t3, r3 = odd_names_leg("C01", tier, seed)
        t4 = session("c01-multipsk", PskMode="all", Variants=["tr"], PatSet=["N", "K", "NN", "XX", "IK", "X1X1", "KX1", "I1K1"])
        r4 = replay("C01", t4, seed, 1)
        t5 = session("c01-after-failure", FaultBudget=1, FaultKinds=["wbuf", "routbuf", "ralt"], PubLens=[32], InitPads=[False],
                     Variants=["tr"], TrafficMode="short", PatSet=["X1N", "X1K", "X1K1", "X1X", "XX", "IK"])
        r5 = replay("C01", t5, seed, 1, threads=14)
        t6 = session("c01-late-psk", PskMode="only", LatePsk=True, PubLens=[32], InitPads=[False], Variants=["tr"],
                     TrafficMode="short", PatSet=["NN", "XX", "IK", "X1X1"])
        r6 = replay("C01", t6, seed, 1, threads=14)
        t7 = session("c01-early-split", EarlySplit=True, PubLens=[32], InitPads=[False], TrafficMode="short",
                     PatSet=["N", "NN", "XX", "IK", "X1X1", "KK"])
        r7 = replay("C01", t7, seed, 1, threads=14)
    else:
        t7 = session("c01-early-split", EarlySplit=True, PskMode="single", PubLens=[32], InitPads=[False], TrafficMode="short")
        r7 = replay("C01", t7, seed, 1, threads=14)
        t4 = r4 = None
        t5 = session("c01-after-failure", FaultBudget=1, FaultKinds=["wbuf", "routbuf", "ralt"], PubLens=[32], InitPads=[False],
                     Variants=["tr"], TrafficMode="short")
        r5 = replay("C01", t5, seed, 1, threads=14)
        t6 = session("c01-late-psk", PskMode="only", LatePsk=True, PubLens=[32], InitPads=[False], Variants=["tr"],
                     TrafficMode="short")
        r6 = replay("C01", t6, seed, 1, threads=14)
        t = session("c01-honest", PskMode="all", Profiles=["small", "zero"])
        r = replay("C01", t, seed, 0, threads=14)
        t2 = session("c01-honest-ring", PskMode="all", PubLens=[32])
        r2 = replay("C01", t2, seed, 2, backends="mix", threads=14)
        t3, r3 = odd_names_leg("C01", tier, seed)
    return merge("model_checking", [x for x in [t, t2, t3, t4, t5, t6, t7] if x], [x for x in [r, r2, r3, r4, r5, r6, r7] if x], RULE_D1 +
                 "and a run that queries the raw split in the middle of the handshake (a pure query); "
                 "the messages must be the specification's whatever happened before: runs with one failed call (undersized "
                 "buffer, altered message) before each step and its retry, and runs in which a psk is installed by set_psk "
                 "only when it is needed; "
                 "a third run names the protocol with a non-canonical spelling of its psk numerals (the verbatim name is hashed); "
                 "a second run assigns ring-backed resolvers to the endpoints (fallback(ring,default), fallback(default,ring), "
                 "default in every mix), since a conforming endpoint must interoperate whatever its backend; "
                 "here: honest sessions, one symbolic transcript per (pattern, psk set, public-key length, pad/hash init "
                 "class, payload profile, transport variant); quick: 2 names per scenario rotating over cipher/hash, "
                 "thorough: every one of the 13 344 names; every message, handshake hash, payload-encrypted flag, raw split "
                 "key and transport ciphertext is compared byte for byte", ASSUME_SYMBOLIC)


def c02(tier, seed):
    if tier == "quick":
        t = session("c02-honest", PskMode="single", Profiles=["zero", "tag", "max"], BufModes=["big", "exact"])
        r = replay("C02", t, seed, 1)
    else:
        t = session("c02-honest", PskMode="all", Profiles=["zero", "small", "tag", "mid", "max"], BufModes=["big", "exact"])
        r = replay("C02", t, seed, 3, threads=14)
    t_b = session("c02-retry", FaultBudget=1, FaultKinds=["wbuf", "routbuf"], PubLens=[32], InitPads=[False], Variants=["tr"],
                  TrafficMode="short", PatSet=(["X1N", "X1K", "X1K1", "X1X", "XX", "IK", "NN"] if tier == "quick" else BASE))
    r_b = replay("C02", t_b, seed, 1, threads=14)
    t_c = session("c02-backends", PskMode="single" if tier == "quick" else "all", PubLens=[32], InitPads=[True, False], Variants=["tr"],
                  Profiles=["mid"], TrafficMode="short", PatSet=(["N", "NN", "XX", "IK", "X1X1", "KK"] if tier == "quick" else BASE))
    r_c = replay("C02", t_c, seed, 1, threads=14, backends="mix-sample" if tier == "quick" else "mix")
    res = merge("model_checking", [t, t_b, t_c], [r, r_b, r_c], RULE_D1 +
                 "an honest exchange stays honest when a caller first offers an undersized buffer and then retries (one such "
                 "call before every step), and when the two endpoints use different crypto backends (default / ring-backed "
                 "fallback pairs); "
                 "here: honest sessions with payload profiles zero/tag-sized/maximum-fit (65535 minus the model-computed "
                 "overhead), stateful and stateless, mixed-direction transport traffic; TLC checks Completes, Agreement, "
                 "Delivery, RawSplitAgrees on every state", ASSUME_SYMBOLIC)
    d = [d2("C02", "honest", 400 if tier == "quick" else 13344, seed, all_names=(tier != "quick")),
         d2("C02", "honest", 80 if tier == "quick" else 4000, seed, hfs=True)]
    if tier != "quick":
        d.append(d2("C02", "long", 300, seed))
    return add_d2(res, d)


FAULTS_ALL = ["wbuf", "wmax", "turn", "ralt", "rtrunc", "rext", "rstale", "routbuf"]


def c07(tier, seed):
    if tier == "quick":
        t1 = session("c07-faults", FaultBudget=1, PubLens=[32], InitPads=[True, False], Variants=["tr"],
                     FixedEs=[True, False], TrafficMode="short")
        r1 = replay("C07", t1, seed, 1)
        t2 = session("c07-faults-psk", FaultBudget=1, PskMode="only", PubLens=[32], InitPads=[False], Variants=["tr"],
                     FixedEs=[False], TrafficMode="short", PatSet=["N", "NN", "XX", "IK", "KK", "X1X1", "NX1", "K1K1"])
        r2 = replay("C07", t2, seed, 1)
        t3 = session("c07-latepsk", PskMode="only", LatePsk=True, PubLens=[32], InitPads=[False], Variants=["tr"],
                     TrafficMode="short", PatSet=["NN", "XX", "IK", "N", "X1X1", "K1K"])
        r3 = replay("C07", t3, seed, 1)
        # two failing calls in a row / scattered (k = 2), on patterns whose later messages start with s
        t4 = session("c07-pairs", FaultBudget=2, FaultKinds=["wbuf", "routbuf", "ralt"], PubLens=[32], InitPads=[False],
                     Variants=["tr"], FixedEs=[True], TrafficMode="short", PatSet=["XN", "XX", "X1N"])
        r4 = replay("C07", t4, seed, 1, threads=14)
        tl, rl = [t1, t2, t3, t4], [r1, r2, r3, r4]
    else:
        tl, rl = [], []
        t3 = session("c07-latepsk", PskMode="only", LatePsk=True, FaultBudget=1, FaultKinds=["wbuf", "routbuf", "ralt"],
                     PubLens=[32], InitPads=[False], Variants=["tr"], TrafficMode="short",
                     PatSet=["N", "X", "NN", "NK", "XX", "IK", "KK", "X1X1", "XK1", "K1K1", "IX", "NX1", "I1K1", "KX"])
        rl.append(replay("C07", t3, seed, 1, threads=14))
        tl.append(t3)
        for i, grp in enumerate([BASE[:12], BASE[12:24], BASE[24:]]):
            t = session(f"c07-faults-{i}", FaultBudget=1, PatSet=grp, PskMode="single", Variants=["tr", "sl"],
                        FixedEs=[True, False], TrafficMode="short")
            rl.append(replay("C07", t, seed, 2, threads=14))
            tl.append(t)
        t = session("c07-faults-pairs", FaultBudget=2, PatSet=["NN", "XX", "IK", "K1X1", "X"], PubLens=[32],
                    InitPads=[False], Variants=["tr"], FixedEs=[True], TrafficMode="short")
        rl.append(replay("C07", t, seed, 1, threads=14))
        tl.append(t)
    tcfg = [("c07-tr", dict(MaxSend=2, Depth=3 if tier == "quick" else 5, BadBudget=1, SetBudget=0, SmallBufs=True, BigBudget=1)),
            ("c07-ow", dict(OneWayT=True, MaxSend=1, Depth=3 if tier == "quick" else 4, BadBudget=1, SetBudget=0, SmallBufs=True))]
    tl2, rl2 = tlegs("C07", seed, tcfg)
    tl, rl = tl + tl2, rl + rl2
    res = merge("fault_enumeration", tl, rl, RULE_D1 +
                 "here: before every handshake step one failing call is injected (thorough: also pairs) - output buffer "
                 "one byte / one tag short of every field end of the message, oversized payload, out-of-turn write/read, "
                 "every field altered, truncation at/inside every field, extension by 1/16/65535 bytes, stale message, "
                 "undersized payload buffer - then the genuine call; expected: documented error kind, unchanged "
                 "observables, and a continuation byte-identical to the failure-free transcript", ASSUME_SYMBOLIC)
    require_causes(res, ["W_BUF_E", "W_BUF_S", "W_BUF_PAYLOAD", "W_MAXLEN", "W_TURN", "W_NO_PSK", "R_TURN", "R_SHORT_E", "R_SHORT_S",
                         "R_SHORT_PAYLOAD", "R_AUTH_S", "R_AUTH_PAYLOAD", "R_OUTBUF", "R_TOO_LONG", "T_W_BUF", "T_W_MAXLEN",
                         "T_R_AUTH", "T_R_SHORT", "T_R_OUTBUF", "T_ONEWAY"])
    ds = [d2("C07", "faulty", 400 if tier == "quick" else 6000, seed), d2_repo_tests("C07"),
          d2("C07", "faulty", 80 if tier == "quick" else 3000, seed, hfs=True)]
    return add_d2(res, [x for x in ds if x])


def c06(tier, seed):
    kinds = ["wbuf", "wmax", "turn", "routbuf", "ralt", "rtrunc"]
    if tier == "quick":
        t1 = session("c06-faults", FaultBudget=1, FaultKinds=kinds, PubLens=[32], InitPads=[False], Variants=["tr"],
                     TrafficMode="short")
        t2 = session("c06-latepsk", PskMode="only", LatePsk=True, PubLens=[32], InitPads=[False], Variants=["tr"],
                     TrafficMode="short")
    else:
        t1 = session("c06-faults", FaultBudget=1, FaultKinds=kinds, PskMode="single", InitPads=[False],
                     FixedEs=[True, False], TrafficMode="short")
        t2 = session("c06-latepsk", PskMode="only", LatePsk=True, FaultBudget=1, FaultKinds=["wbuf", "wmax", "routbuf"],
                     PubLens=[32], InitPads=[False], Variants=["tr"], TrafficMode="short",
                     PatSet=["N", "X", "NN", "NK", "XX", "IK", "KK", "X1X1", "XK1", "K1K1", "IX", "NX1", "I1K1", "KX"])
    r1 = replay("C06", t1, seed, 1, threads=14)
    r2 = replay("C06", t2, seed, 1, threads=14)
    t3 = session("c06-faults-p256", FaultBudget=1, FaultKinds=["wbuf", "wmax"], PubLens=[65], InitPads=[False], Variants=["tr"],
                 TrafficMode="short", PskMode="single",
                 PatSet=(["NN", "XX", "IK", "N", "KX", "X1X1"] if tier == "quick" else BASE))
    r3 = replay("C06", t3, seed, 1, threads=14)
    if tier == "quick":
        tcfg = [("c06-tr-rekey", dict(MaxSend=2, Depth=4, BadBudget=0, SetBudget=0, RekeyBudget=2, SmallBufs=False)),
                ("c06-sl", dict(Stateful=False, MaxSend=1, Depth=2, BadBudget=0, SetBudget=0, SmallBufs=False)),
                ("c06-ow-set", dict(OneWayT=True, MaxSend=2, Depth=4, BadBudget=0, SetBudget=1, SmallBufs=False)),
                ("c06-top", dict(NonceMode="top", MaxSend=3, Depth=4, BadBudget=0, SetBudget=0, RekeyBudget=1, SmallBufs=False))]
    else:
        tcfg = [("c06-tr-rekey", dict(MaxSend=3, Depth=6, BadBudget=1, SetBudget=0, RekeyBudget=3, SmallBufs=True)),
                ("c06-sl", dict(Stateful=False, MaxSend=2, Depth=3, BadBudget=0, SetBudget=0, SmallBufs=False)),
                ("c06-top", dict(NonceMode="top", MaxSend=3, Depth=5, BadBudget=1, SetBudget=0, RekeyBudget=1))]
    tl2, rl2 = tlegs("C06", seed, tcfg)
    return merge("model_checking", [t1, t2, t3] + tl2, [r1, r2, r3] + rl2, RULE_D1 +
                 "transport: every interleaving of writes, deliveries and rekeys (stateful), and stateless writes under nonces "
                 "that differ only above bit 32 - the recording cipher sees the 64-bit nonce, the byte comparison sees what the "
                 "backend did with it; "
                 "here: sessions with failing calls, retries, PSKs set late at every possible time; TLC checks NoNonceReuse "
                 "and ReservedUnused on the model's encryption log (failed calls included); on the real code the recording "
                 "cipher logs every encrypt(key, nonce, ad, plaintext) of both endpoints and the same two predicates are "
                 "evaluated over the observed operations; ephemeral freshness is checked through bytes: the model expects "
                 "pub(rand(ep, k)) with k the draw made during that very write",
                 ASSUME_SYMBOLIC, extra_cov=dict(encrypt_ops_observed=r1["encrypt_ops_observed"] + r2["encrypt_ops_observed"]))


def c14(tier, seed):
    kinds = ["wbuf", "wmax", "rtrunc", "rext"]
    if tier == "quick":
        t1 = session("c14-honest", Profiles=["max", "zero", "mid"], BufModes=["exact"], PskMode="single", Variants=["tr"])
        t2 = session("c14-faults", FaultBudget=1, FaultKinds=kinds, Profiles=["small", "max"], PubLens=[32, 65],
                     InitPads=[False], Variants=["tr"], TrafficMode="short")
        r1 = replay("C14", t1, seed, 1)
        r2 = replay("C14", t2, seed, 1)
        tcfg = [("c14-tr", dict(MaxSend=1, Depth=2, BadBudget=1, SetBudget=0, SmallBufs=True, BigBudget=1)),
                ("c14-sl", dict(Stateful=False, MaxSend=1, Depth=2, BadBudget=1, SetBudget=0, SmallBufs=True, BigBudget=1)),
                ("c14-ow", dict(OneWayT=True, MaxSend=1, Depth=2, BadBudget=1, SetBudget=0, SmallBufs=True, BigBudget=1)),
                ("c14-ow-sl", dict(OneWayT=True, Stateful=False, MaxSend=1, Depth=2, BadBudget=0, SetBudget=0, SmallBufs=True,
                                   BigBudget=1))]
        t3 = session("c14-faults-psk", FaultBudget=1, FaultKinds=["wmax", "wbuf"], PskMode="only", Profiles=["small"],
                     PubLens=[32], InitPads=[False], Variants=["tr"], TrafficMode="short",
                     PatSet=["N", "NN", "XX", "KN", "IX", "IK", "X1X1", "NK1"])
        r3 = replay("C14", t3, seed, 1)
    else:
        t1 = session("c14-honest", Profiles=["max", "zero", "tag", "mid"], BufModes=["big", "exact"], PskMode="all")
        r1 = replay("C14", t1, seed, 2, threads=14)
        t2 = session("c14-faults", FaultBudget=1, FaultKinds=kinds, PskMode="single", Profiles=["small", "max"],
                     InitPads=[False], Variants=["tr"], TrafficMode="short")
        r2 = replay("C14", t2, seed, 2, threads=14)
        tcfg = [("c14-tr", dict(MaxSend=2, Depth=3, BadBudget=1, SetBudget=0, SmallBufs=True, BigBudget=1)),
                ("c14-sl", dict(Stateful=False, MaxSend=1, Depth=3, BadBudget=1, SetBudget=0, SmallBufs=True, BigBudget=1)),
                ("c14-ow", dict(OneWayT=True, MaxSend=1, Depth=3, BadBudget=1, SetBudget=0, SmallBufs=True, BigBudget=1)),
                ("c14-ow-sl", dict(OneWayT=True, Stateful=False, MaxSend=1, Depth=3, BadBudget=0, SetBudget=0, SmallBufs=True,
                                   BigBudget=1))]
        t3 = session("c14-faults-psk", FaultBudget=1, FaultKinds=["wmax", "wbuf"], PskMode="only", Profiles=["small", "max"],
                     InitPads=[False], Variants=["tr"], TrafficMode="short")
        r3 = replay("C14", t3, seed, 1, threads=14)
    tl2, rl2 = tlegs("C14", seed, tcfg)
    tl2, rl2 = tl2 + [t3], rl2 + [r3]
    return merge("model_checking", [t1, t2] + tl2, [r1, r2] + rl2, RULE_D1 +
                 "transport: buffers exactly / one byte short of payload+16, payloads of 65519 and 65520 bytes, reads with exact "
                 "and one-byte-short buffers, messages of 65536 bytes; "
                 "here: message lengths are computed by the model from the fields actually written (Framing invariant); "
                 "payloads 0 and maximum-fit, buffers one byte and one tag short of every field end, messages one byte "
                 "over 65535, truncations at and inside every field", ASSUME_SYMBOLIC)


def c17(tier, seed):
    kinds = ["ralt", "rtrunc", "routbuf", "rstale"]
    if tier == "quick":
        t1 = session("c17-honest", PskMode="single", InitPads=[False])
        t2 = session("c17-faults", FaultBudget=1, FaultKinds=kinds, PubLens=[65, 32], InitPads=[False], Variants=["sl"],
                     TrafficMode="short")
        r1 = replay("C17", t1, seed, 1)
        r2 = replay("C17", t2, seed, 1)
        t3 = session("c17-extra-rs", ExtraRs=[True], FaultBudget=1, FaultKinds=["ralt", "rtrunc", "routbuf"], PubLens=[32, 65],
                     InitPads=[False], Variants=["tr"], TrafficMode="short",
                     PatSet=["XX", "NX", "IX", "XN", "IN", "X1X1", "XK1", "I1K1", "K1X", "NX1"])
        r3 = replay("C17", t3, seed, 1)
        t4 = session("c17-late-psk", PskMode="only", LatePsk=True, ExtraRs=[False, True], PubLens=[32], InitPads=[False], Variants=["tr"],
                     TrafficMode="short", PatSet=["XX", "IX", "NX", "XN", "X1X1", "XK1"])
        r4 = replay("C17", t4, seed, 1)
        t5 = session("c17-other-rs", ExtraRs=[True], ExtraRsOther=True, PubLens=[32, 65], InitPads=[False], Variants=["tr", "sl"],
                     TrafficMode="short", PatSet=["XX", "NX", "IX", "XN", "IN", "X1X1", "XK1", "NX1", "K1X", "X"])
        r5 = replay("C17", t5, seed, 1)
    else:
        t4 = session("c17-late-psk", PskMode="only", LatePsk=True, ExtraRs=[False, True], PubLens=[32, 65], InitPads=[False],
                     Variants=["tr"], TrafficMode="short")
        r4 = replay("C17", t4, seed, 1, threads=14)
        t5 = session("c17-other-rs", ExtraRs=[True], ExtraRsOther=True, PskMode="single", InitPads=[False], Variants=["tr", "sl"],
                     TrafficMode="short")
        r5 = replay("C17", t5, seed, 1, threads=14)
        t1 = session("c17-honest", PskMode="all", InitPads=[False])
        r1 = replay("C17", t1, seed, 2, threads=14)
        t2 = session("c17-faults", FaultBudget=1, FaultKinds=kinds, PskMode="single", InitPads=[False],
                     TrafficMode="short")
        r2 = replay("C17", t2, seed, 1, threads=14)
        t3 = session("c17-extra-rs", ExtraRs=[True], FaultBudget=1, FaultKinds=["ralt", "rtrunc", "routbuf", "rstale"],
                     InitPads=[False], Variants=["tr", "sl"], TrafficMode="short", PskMode="single")
        r3 = replay("C17", t3, seed, 1, threads=14)
    return merge("model_checking", [t1, t2, t3, t4, t5], [r1, r2, r3, r4, r5], RULE_D1 +
                 "and with ANOTHER key than the peer's handed to the builder where the pattern transmits the key (the "
                 "transmitted key is the one to report, and the session is an ordinary one); "
                 "and with a psk installed late (a message refused for the missing psk after its static key field was read must "
                 "not leave that key behind); "
                 "also with the peer's key handed to the builder although the pattern transmits it (a rejected message must "
                 "not replace the configured key); "
                 "here: get_remote_static() is compared with the model's term after EVERY call of every scenario on all "
                 "three state types, for 32-byte (25519) and 65-byte (P-256) keys, including after rejected reads; TLC "
                 "checks RemoteStaticCorrect on every state", ASSUME_SYMBOLIC)


def c03_after_failure(tier, seed):
    """One failed call earlier in the session must not weaken the rejection of an altered message."""
    t = session("c03-after-failure", FaultBudget=1, FaultKinds=["wbuf", "routbuf", "turn"], TamperBudget=1, PubLens=[32],
                InitPads=[False], Variants=["tr"], TrafficMode="short",
                PatSet=(["X1N", "X1X", "XN", "XX"] if tier == "quick" else ["X1N", "X1K", "X1K1", "X1X", "XN", "XK", "XX", "XK1", "IK", "NN"]))
    return t, replay("C03", t, seed, 1, threads=14)


def c03(tier, seed):
    if tier == "quick":
        t = session("c03-tamper", TamperBudget=1, PubLens=[32], InitPads=[False], Variants=["tr"], TrafficMode="short")
        r = replay("C03", t, seed, 1)
        t2 = session("c03-tamper-p256", TamperBudget=1, PubLens=[65], InitPads=[False], Variants=["tr"], TrafficMode="short",
                     PskMode="single", PatSet=["NN", "XX", "IK", "KK", "N", "X", "NX1", "I1K1"])
        r2 = replay("C03", t2, seed, 1)
        t3 = session("c03-tamper-ring", TamperBudget=1, PubLens=[32], InitPads=[True, False], Variants=["tr"],
                     TrafficMode="short", Profiles=["zero", "small"], BufModes=["exact"],
                     PatSet=["NN", "XX", "IK", "N", "KK", "NX1", "X1X1"])
        r3 = replay("C03", t3, seed, 1, backends="mix-sample")
        tl, rl = [t, t2, t3], [r, r2, r3]
    else:
        tl, rl = [], []
        t3 = session("c03-tamper-ring", TamperBudget=1, PubLens=[32], InitPads=[True, False], Variants=["tr"],
                     TrafficMode="short", Profiles=["zero", "small"], BufModes=["exact", "big"])
        rl.append(replay("C03", t3, seed, 1, backends="mix-sample", threads=14))
        tl.append(t3)
        for i, grp in enumerate([BASE[:12], BASE[12:24], BASE[24:]]):
            t = session(f"c03-tamper-{i}", TamperBudget=1, PatSet=grp, PskMode="single", InitPads=[False],
                        Variants=["tr"], TrafficMode="short")
            rl.append(replay("C03", t, seed, 2, threads=14))
            tl.append(t)
    t9, r9 = c03_after_failure(tier, seed)
    tl, rl = tl + [t9], rl + [r9]
    return merge("model_checking", tl, rl, RULE_D1 +
                 "one run injects a FAILED call (undersized buffer, out-of-turn call) before the alteration: a rejected call "
                 "earlier in the session must not weaken what is rejected later; "
                 "here: the adversary alters one handshake message in transit (each field flipped at either end or replaced "
                 "by junk, truncation at/inside every field, extension, substitution by an earlier message) and both "
                 "parties continue as far as they can; TLC checks NoSilentCompletion and EncryptedFieldRejectedAtOnce and "
                 "predicts which call fails; the real code must fail at the same call", ASSUME_SYMBOLIC)


def transport(name, timeout=3000, **over):
    c = dict(FullRollback=True, OneWayT=False, Stateful=True, NonceMode="lo", MaxSend=2, Depth=4, BadBudget=1,
             SetBudget=1, RekeyBudget=0, SmallBufs=True, BigBudget=0, PayBase=70, EmitEdges=True, XN1=0, XN2=0, XN3=0, XN4=0)
    c.update(over)
    # every edge is followed by a probe round trip (the edge cover alone compares the reported counters only)
    c.setdefault("Probes", True)
    return run_tlc("MC_Transport", c, invariants=["InvT"], name=name, timeout=timeout, view="ViewT",
                   action_constraint="EmitEdge")


RULE_T = ("TLC explores spec/MC_Transport.tla exhaustively up to the stated depth/budgets and emits EVERY EDGE of the state "
          "graph with a shortest path to its source (history hidden by a VIEW): one implementation test per model "
          "transition; each is replayed after a real handshake of a protocol name of the class (the model's keys K1/K2 are "
          "bound to the session's split keys, which C01 checks independently); every edge is followed by a PROBE round "
          "trip computed by the model from the post-state (I writes, R reads it, R writes, I reads it), so that the keys "
          "and counters both sides really hold after the edge - not only the counters the API reports - are compared "
          "byte for byte whatever path led there; two further shallow configurations (-lenA, -lenB) repeat the first one with "
          "seed-derived payload lengths (block-aligned; very short, medium or long) instead of 70-odd bytes; "
          "distinct = distinct (edge, name) pairs; ")


PAY_ALIGNED = [15, 31, 47, 63, 127, 255, 511, 1023, 4095, 16383, 32767]      # + j = 1 gives the aligned length


def len_legs(seed, configs):
    """Two more shallow configurations per property with seed-derived payload lengths (PayBase): the fixed legs write
    payloads of 70-odd bytes only, so a deviation confined to a length class (block-aligned, long, very short) would pass."""
    rnd = random.Random(seed * 104729 + len(configs))
    name, c = configs[0]
    base = dict(c)
    base.update(Depth=min(base.get("Depth", 3), 3), MaxSend=min(base.get("MaxSend", 1), 2), BigBudget=0)
    base.pop("PayBase", None)
    a = rnd.choice(PAY_ALIGNED)
    b = rnd.choice([0, rnd.randrange(1, 64), rnd.randrange(256, 4096), rnd.randrange(4096, 65000)])
    # ... and seed-derived counters between the fixed low values and 2^32: 2^e + d (one with e < 32 and every lower bit
    # random, one with e >= 32 and 24 random low bits), offered wherever the model offers a nonce
    e1 = rnd.randrange(9, 32)
    xn = dict(XN1=e1, XN2=rnd.randrange(1, 2 ** e1), XN3=rnd.randrange(32, 63), XN4=rnd.randrange(2 ** 16, 2 ** 24))
    xa = dict(base, PayBase=a, **xn, SetBudget=max(1, base.get("SetBudget", 1)))
    # the second one in stateless mode (every write and read names its counter; the bytes under each are compared)
    xb = dict(base, PayBase=b, **xn, Stateful=False, SetBudget=0,
              Depth=min(base["Depth"], 2), MaxSend=1)
    return [(name + "-lenA", xa), (name + "-lenB", xb)]


def tlegs(prop, seed, configs, per_scn=1):
    tl, rl = [], []
    configs = list(configs) + len_legs(seed, configs)
    for name, c in configs:
        c = dict(c)
        backends = c.pop("backends", "default")
        t = transport(name, **c)
        # small edge sets are replayed for more names each, so that pattern-specific behaviour is reached
        nscn = max(1, count_lines(t["out"], "SCN"))
        per = per_scn if backends != "default" else min(24, max(per_scn, 5000 // nscn))
        rl.append(replay(prop, t, seed, per, threads=14, backends=backends))
        tl.append(t)
    return tl, rl


def c05(tier, seed):
    if tier == "quick":
        cfgs = [("c05-tr", dict(MaxSend=2, Depth=4, BadBudget=1, SetBudget=1)),
                ("c05-top", dict(NonceMode="top", MaxSend=1, Depth=5, BadBudget=0, SetBudget=2, SmallBufs=False)),
                ("c05-ow", dict(OneWayT=True, MaxSend=2, Depth=4, BadBudget=1, SetBudget=1, SmallBufs=False)),
                ("c05-big", dict(MaxSend=1, Depth=3, BadBudget=0, SetBudget=0, SmallBufs=False, BigBudget=1)),
                ("c05-tr-ring", dict(MaxSend=2, Depth=3, BadBudget=1, SetBudget=0, backends="mix-sample"))]
    else:
        cfgs = [("c05-tr", dict(MaxSend=3, Depth=5, BadBudget=1, SetBudget=1)),
                ("c05-tr-deep", dict(MaxSend=3, Depth=7, BadBudget=0, SetBudget=0, SmallBufs=False)),
                ("c05-tr-oneway", dict(OneWayT=True, MaxSend=3, Depth=5, BadBudget=1, SetBudget=1)),
                ("c05-top", dict(NonceMode="top", MaxSend=2, Depth=6, BadBudget=1, SetBudget=2, SmallBufs=False)),
                ("c05-tr-ring", dict(MaxSend=2, Depth=4, BadBudget=1, SetBudget=1, backends="mix"))]
    tl, rl = tlegs("C05", seed, cfgs)
    res = merge("model_checking", tl, rl, RULE_T +
                 "here: stateful mode; all delivery schedules of the sent messages to either endpoint (reordering, loss, "
                 "duplication, reflection), altered/truncated/extended/garbage/donor-session deliveries, undersized output "
                 "buffers and explicit receiving-nonce settings; TLC checks InOrderOnce, RejectIsNoOp, OnlyPeerAccepted; the "
                 "code's result and both nonces are compared after every call", ASSUME_SYMBOLIC)
    return add_d2(res, [d2("C05", "long", 40 if tier == "quick" else 1500, seed)])


def c04(tier, seed):
    if tier == "quick":
        cfgs = [("c04-tr", dict(MaxSend=2, Depth=3, BadBudget=2, SetBudget=0, SmallBufs=False)),
                ("c04-sl", dict(Stateful=False, MaxSend=1, Depth=3, BadBudget=1, SetBudget=0, SmallBufs=False)),
                ("c04-ow", dict(OneWayT=True, MaxSend=2, Depth=3, BadBudget=2, SetBudget=0, SmallBufs=False)),
                ("c04-sl-ring", dict(Stateful=False, MaxSend=1, Depth=2, BadBudget=0, SetBudget=0, SmallBufs=False,
                                     backends="mix-sample")),
                ("c04-tr-ring-long", dict(MaxSend=1, Depth=2, BadBudget=1, SetBudget=0, SmallBufs=True, PayBase=300,
                                          backends="mix-sample")),
                ("c04-rekey", dict(MaxSend=1, Depth=4, BadBudget=0, SetBudget=0, RekeyBudget=2, SmallBufs=False)),
                ("c04-sl-rekey", dict(Stateful=False, MaxSend=1, Depth=3, BadBudget=0, SetBudget=0, RekeyBudget=1, SmallBufs=False)),
                ("c04-top", dict(NonceMode="top", MaxSend=2, Depth=4, BadBudget=0, SetBudget=1, SmallBufs=False))]
    else:
        cfgs = [("c04-tr", dict(MaxSend=2, Depth=5, BadBudget=2, SetBudget=1, SmallBufs=False)),
                ("c04-sl", dict(Stateful=False, MaxSend=2, Depth=4, BadBudget=2, SetBudget=0, SmallBufs=False)),
                ("c04-ow", dict(OneWayT=True, MaxSend=2, Depth=5, BadBudget=2, SetBudget=1, SmallBufs=False)),
                ("c04-ow-sl", dict(OneWayT=True, Stateful=False, MaxSend=1, Depth=4, BadBudget=2, SetBudget=0, SmallBufs=False)),
                ("c04-sl-ring", dict(Stateful=False, MaxSend=2, Depth=3, BadBudget=1, SetBudget=0, SmallBufs=False,
                                     backends="mix")),
                ("c04-tr-ring", dict(MaxSend=2, Depth=4, BadBudget=1, SetBudget=1, SmallBufs=False, backends="mix-sample")),
                ("c04-tr-ring-long", dict(MaxSend=2, Depth=3, BadBudget=1, SetBudget=0, SmallBufs=True, PayBase=300, backends="mix")),
                ("c04-top", dict(NonceMode="top", MaxSend=2, Depth=5, BadBudget=1, SetBudget=1, SmallBufs=False)),
                ("c04-rekey", dict(MaxSend=2, Depth=5, BadBudget=1, SetBudget=0, RekeyBudget=2, SmallBufs=False)),
                ("c04-sl-rekey", dict(Stateful=False, MaxSend=1, Depth=4, BadBudget=1, SetBudget=0, RekeyBudget=2, SmallBufs=False))]
    tl, rl = tlegs("C04", seed, cfgs, per_scn=1 if tier == "quick" else 2)
    # the transport keys must be the session's whatever was QUERIED on the way: a raw-split query at any earlier point
    # of the handshake, then the rest of the handshake and traffic in both directions, compared byte for byte
    t_es = session("c04-early-split", EarlySplit=True, PskMode="single", PubLens=[32], InitPads=[False], TrafficMode="short",
                   PatSet=(["N", "NN", "XX", "IK", "X1X1"] if tier == "quick" else BASE))
    tl.append(t_es)
    rl.append(replay("C04", t_es, seed, 1, threads=14))
    return merge("model_checking", tl, rl, RULE_T +
                 "one session-model run queries dangerously_get_raw_split() once at any earlier point of the handshake (a pure "
                 "query: everything after it must be unchanged); "
                 "here: every message of the pool is offered to BOTH endpoints (so: reflection to its own sender, the other "
                 "direction), plus bit flips at both ends and in the middle, truncations (incl. below 16 bytes and to the bare "
                 "tag), extension, garbage of 0/15/16/21/65536 bytes, messages of a donor session with the same long-term "
                 "keys, and in stateless mode every pair of nonces from {0,1,2,2^32,2^32+1,2^63}; TLC checks "
                 "OnlyPeerAccepted", ASSUME_SYMBOLIC)


def apalache_nonce():
    """Inductive invariant of the counter logic for an unbounded reserved value (spec/NonceInd.tla)."""
    import shutil
    import subprocess
    import time as _t
    out = os.path.join(WORK, "c09-apalache")
    os.makedirs(out, exist_ok=True)
    obligations = [("Init => IndInv", ["--init=Init", "--inv=IndInv", "--length=0"]),
                   ("IndInv /\\ Next => IndInv'", ["--init=IndInit", "--inv=IndInv", "--length=1"]),
                   ("IndInv => Safety", ["--init=IndInit", "--inv=Safety", "--length=0"])]
    t0 = _t.time()
    done = 0
    env = dict(os.environ)
    env["TMPDIR"] = out          # the launcher makes its SANY scratch directory with mktemp -t: under work/, not /tmp
    for nm, a in obligations:
        p = subprocess.run(["timeout", "900", "apalache-mc", "check", f"--out-dir={out}", "--cinit=ConstInit"] + a +
                           [os.path.join(SPEC, "NonceInd.tla")], capture_output=True, text=True, cwd=SPEC, env=env)
        if "EXITCODE: OK" not in p.stdout:
            raise ToolError(f"Apalache could not discharge '{nm}' of NonceInd.tla:\n" + p.stdout[-1500:])
        done += 1
    shutil.rmtree(out, ignore_errors=True)
    log(f"Apalache: {done}/3 obligations of NonceInd discharged in {_t.time() - t0:.0f}s")
    return dict(obligations=3, discharged=done, checker_cmd="apalache-mc check --cinit=ConstInit --init=... --inv=... NonceInd.tla")


def c09(tier, seed):
    if tier == "quick":
        cfgs = [("c09-top", dict(NonceMode="top", MaxSend=3, Depth=4, BadBudget=1, SetBudget=1)),
                ("c09-top-sl", dict(NonceMode="top", Stateful=False, MaxSend=1, Depth=3, BadBudget=0, SetBudget=0)),
                ("c09-top-ow", dict(NonceMode="top", OneWayT=True, MaxSend=2, Depth=4, BadBudget=0, SetBudget=2, SmallBufs=False)),
                ("c09-top-rekey", dict(NonceMode="top", MaxSend=2, Depth=3, BadBudget=0, SetBudget=1, RekeyBudget=1, SmallBufs=False)),
                ("c09-lo-big", dict(MaxSend=1, Depth=3, BadBudget=0, SetBudget=1, SmallBufs=True, BigBudget=1)),
                ("c09-sl-big", dict(Stateful=False, MaxSend=1, Depth=2, BadBudget=0, SetBudget=0, SmallBufs=False, BigBudget=1))]
    else:
        cfgs = [("c09-top", dict(NonceMode="top", MaxSend=3, Depth=6, BadBudget=1, SetBudget=2)),
                ("c09-lo", dict(NonceMode="lo", MaxSend=3, Depth=5, BadBudget=1, SetBudget=2)),
                ("c09-top-sl", dict(NonceMode="top", Stateful=False, MaxSend=2, Depth=4, BadBudget=1, SetBudget=0)),
                ("c09-top-ow", dict(NonceMode="top", OneWayT=True, MaxSend=3, Depth=5, BadBudget=1, SetBudget=2)),
                ("c09-top-rekey", dict(NonceMode="top", MaxSend=3, Depth=6, BadBudget=0, SetBudget=1, RekeyBudget=2, SmallBufs=False))]
    tl, rl = tlegs("C09", seed, cfgs)
    res = merge("model_checking", tl, rl, RULE_T +
                 "here: counters start two below the reserved value 2^64-1 (sender placed there by the verif-hooks hook, "
                 "receiver by set_receiving_nonce) and every interleaving of successful/failing reads and writes and "
                 "explicit settings to {2^64-3, 2^64-2, 2^64-1, 0} is explored, also with automatic and manual rekeys at any "
                 "point (a new key does not make the reserved value usable); TLC checks StepsByOne, ExhaustedFails, "
                 "ReservedUnused; the recording cipher reports any use of nonce 2^64-1 other than the REKEY input",
                 ASSUME_SYMBOLIC + ["Apalache inductive check of the counter logic for an unbounded nonce domain: see spec/NonceInd.tla (thorough tier)"])
    res["coverage"]["apalache_inductive_check"] = apalache_nonce()
    ds = [d2_repo_tests("C09")]
    return add_d2(res, [x for x in ds if x])


def c15(tier, seed):
    if tier == "quick":
        cfgs = [("c15-tr", dict(MaxSend=2, Depth=4, BadBudget=0, SetBudget=0, RekeyBudget=2, SmallBufs=False)),
                ("c15-tr3", dict(MaxSend=1, Depth=5, BadBudget=0, SetBudget=0, RekeyBudget=3, SmallBufs=False)),
                ("c15-sl", dict(Stateful=False, MaxSend=1, Depth=3, BadBudget=0, SetBudget=0, RekeyBudget=2, SmallBufs=False)),
                ("c15-ow", dict(OneWayT=True, MaxSend=1, Depth=4, BadBudget=0, SetBudget=0, RekeyBudget=2, SmallBufs=False)),
                ("c15-ow-sl", dict(OneWayT=True, Stateful=False, MaxSend=1, Depth=3, BadBudget=0, SetBudget=0, RekeyBudget=2, SmallBufs=False)),
                ("c15-ring", dict(MaxSend=1, Depth=3, BadBudget=0, SetBudget=0, RekeyBudget=1, SmallBufs=False, backends="mix-sample"))]
    else:
        cfgs = [("c15-tr", dict(MaxSend=2, Depth=6, BadBudget=0, SetBudget=0, RekeyBudget=3, SmallBufs=False)),
                ("c15-sl", dict(Stateful=False, MaxSend=2, Depth=4, BadBudget=0, SetBudget=0, RekeyBudget=2, SmallBufs=False)),
                ("c15-ow", dict(OneWayT=True, MaxSend=2, Depth=5, BadBudget=0, SetBudget=0, RekeyBudget=3, SmallBufs=False)),
                ("c15-ow-sl", dict(OneWayT=True, Stateful=False, MaxSend=1, Depth=4, BadBudget=0, SetBudget=0, RekeyBudget=2, SmallBufs=False)),
                ("c15-ring", dict(MaxSend=2, Depth=4, BadBudget=0, SetBudget=0, RekeyBudget=2, SmallBufs=False, backends="mix"))]
    tl, rl = tlegs("C15", seed, cfgs, per_scn=1 if tier == "quick" else 2)
    res = merge("model_checking", tl, rl, RULE_T +
                 "here: every sequence of {write, deliver, rekey_outgoing, rekey_incoming, rekey_manually(k1|k2|both, through "
                 "the combined and the single-direction entry points)} on either side; REKEY(k) is a term evaluated from its "
                 "definition (first 32 bytes of ENCRYPT(k, 2^64-1, '', 0^32)) with independent primitives, so post-rekey "
                 "ciphertexts are compared byte for byte; in-sync pairs deliver, out-of-sync pairs reject", ASSUME_SYMBOLIC)
    ds = [d2("C15", "rekey", 300 if tier == "quick" else 5000, seed), d2_repo_tests("C15")]
    return add_d2(res, [x for x in ds if x])


def c16(tier, seed):
    if tier == "quick":
        cfgs = [("c16-sl", dict(Stateful=False, MaxSend=1, Depth=3, BadBudget=0, SetBudget=0, SmallBufs=True, BigBudget=1)),
                ("c16-sl-top", dict(Stateful=False, NonceMode="top", MaxSend=1, Depth=3, BadBudget=0, SetBudget=0)),
                ("c16-sl-rekey", dict(Stateful=False, MaxSend=1, Depth=3, BadBudget=0, SetBudget=0, RekeyBudget=1, SmallBufs=False)),
                ("c16-sl-rekey3", dict(Stateful=False, MaxSend=0, Depth=3, BadBudget=0, SetBudget=0, RekeyBudget=3, SmallBufs=False)),
                ("c16-sl-ow", dict(Stateful=False, OneWayT=True, MaxSend=1, Depth=2, BadBudget=0, SetBudget=0, SmallBufs=False)),
                ("c16-sl-ring", dict(Stateful=False, MaxSend=1, Depth=2, BadBudget=0, SetBudget=0, SmallBufs=True,
                                     backends="mix-sample"))]
    else:
        cfgs = [("c16-sl", dict(Stateful=False, MaxSend=2, Depth=3, BadBudget=1, SetBudget=0, SmallBufs=True, BigBudget=1)),
                ("c16-sl-top", dict(Stateful=False, NonceMode="top", MaxSend=2, Depth=4, BadBudget=0, SetBudget=0)),
                ("c16-sl-ring", dict(Stateful=False, MaxSend=2, Depth=3, BadBudget=0, SetBudget=0, SmallBufs=True,
                                     backends="mix")),
                ("c16-sl-ow", dict(Stateful=False, OneWayT=True, MaxSend=2, Depth=4, BadBudget=0, SetBudget=0, BigBudget=1)),
                ("c16-sl-rekey3", dict(Stateful=False, MaxSend=1, Depth=4, BadBudget=0, SetBudget=0, RekeyBudget=3, SmallBufs=False))]
    tl, rl = tlegs("C16", seed, cfgs, per_scn=1 if tier == "quick" else 2)
    res = merge("model_checking", tl, rl, RULE_T +
                 "here: stateless mode; writes and reads under every nonce of {0,1,2,2^32,2^32+1,2^63} (top mode: 2^64-3.."
                 "2^64-1) in any order and repetition; the expected message under nonce n is the SAME term the stateful "
                 "sender produces as its n-th message, evaluated independently", ASSUME_SYMBOLIC)
    return add_d2(res, [d2("C16", "threads", 30 if tier == "quick" else 600, seed)])


def c11(tier, seed):
    if tier == "quick":
        c = dict(FullRollback=True, PatSetS=BASE, PskSetS=[[], [0], [2]], Depth=7, MaxFail=2, EmitEdges=True, HfsS=False)
        per = 1
    else:
        c = dict(FullRollback=True, PatSetS=BASE, PskSetS=[[], [0], [1], [2], [3], [4], [0, 2]], Depth=9, MaxFail=3,
                 EmitEdges=True, HfsS=False)
        per = 2
    t = run_tlc("MC_StateMachine", c, invariants=["InvS"], name="c11-sm", timeout=3000, view="ViewS",
                action_constraint="EmitEdge")
    r = replay("C11", t, seed, per, threads=14, dh="25519")
    # one-way rules in both transport modes, with every kind of message offered to the side that may not read
    tcfg = [("c11-ow", dict(OneWayT=True, MaxSend=1, Depth=3 if tier == "quick" else 4, BadBudget=1, SetBudget=0, SmallBufs=True, BigBudget=1)),
            ("c11-ow-sl", dict(OneWayT=True, Stateful=False, MaxSend=1, Depth=2 if tier == "quick" else 3, BadBudget=1, SetBudget=0,
                               SmallBufs=True, BigBudget=1))]
    # the one-way rule holds whatever was done to the keys in between (rekeys of either kind on either side)
    tcfg.append(("c11-ow-rekey", dict(OneWayT=True, MaxSend=1, Depth=2 if tier == "quick" else 4, BadBudget=0, SetBudget=0, RekeyBudget=1 if tier == "quick" else 2,
                                      SmallBufs=False)))
    tl2, rl2 = tlegs("C11", seed, tcfg)
    res = merge("model_checking", [t] + tl2, [r] + rl2,
                 "TLC explores spec/MC_StateMachine.tla exhaustively: every sequence of calls from {write valid / into an "
                 "empty buffer, read genuine / stale / garbage, convert to stateful or stateless (at ANY time), transport "
                 "write/read} on both endpoints up to the stated depth and number of failing calls, for all 38 patterns and "
                 "psk representatives (1-4 messages, one-way and interactive); every EDGE of the state graph is emitted with a "
                 "shortest path and replayed: result variant, is_my_turn, is_handshake_finished, is_initiator compared after "
                 "every call; TLC checks Indicators, OutOfPhase, ConvertOnlyFinished, OneWayS", ASSUME_SYMBOLIC)
    ds = [d2_repo_tests("C11")]
    return add_d2(res, [x for x in ds if x])


def c12(tier, seed):
    t1 = run_tlc("MC_Builder", dict(FullRollback=True, PatSetB=BASE, BuilderDhs=["25519", "P256"], HfsB=False), invariants=["PrereqSane"], name="c12-builder",
                 workers=1, timeout=1200)
    r1 = replay("C12", t1, seed, 1, threads=14)
    # a PSK that was not supplied is an error AT THE MESSAGE THAT NEEDS IT, and set_psk then lets it proceed
    if tier == "quick":
        t2 = session("c12-latepsk", PskMode="only", LatePsk=True, PubLens=[32], InitPads=[False], Variants=["tr"],
                     TrafficMode="short", PatSet=["NN", "XX", "IK", "N", "X1X1", "K1K", "KX"])
        t2b = session("c12-psk-faults", PskMode="only", FaultBudget=1, FaultKinds=["wbuf", "ralt"], PubLens=[32],
                      InitPads=[False], Variants=["tr"], TrafficMode="short", PatSet=["NN", "IK", "N", "X1X1"])
    else:
        t2 = session("c12-latepsk", PskMode="only", LatePsk=True, PubLens=[32], InitPads=[False], Variants=["tr"],
                     TrafficMode="short")
        t2b = session("c12-psk-faults", PskMode="only", FaultBudget=1, FaultKinds=["wbuf", "ralt", "routbuf"], PubLens=[32],
                      InitPads=[False], Variants=["tr"], TrafficMode="short")
    r2 = replay("C12", t2, seed, 1, threads=14)
    r2b = replay("C12", t2b, seed, 1, threads=14)
    # keys supplied in psk slots the pattern does not use change nothing (honest sessions, all 38 patterns + psk variants)
    t2c = session("c12-extra-psk", ExtraPsks=[True], PskMode="single" if tier == "quick" else "all", PubLens=[32],
                  InitPads=[False], Variants=["tr"], TrafficMode="short")
    r2c = replay("C12", t2c, seed, 1, threads=14)
    res = merge("model_checking", [t1, t2, t2b, t2c], [r1, r2, r2b, r2c],
                "a supplied PSK stays supplied across failing calls (psk-bearing messages with a failing call, then the retry); "
                "complete enumeration by TLC (spec/MC_Builder.tla): 38 patterns x 2 roles x 4 subsets of supplied static keys x 2 DH functions (25519, P-256) "
                "x modifier lists {none, psk0..psk9, fallback, psk1+fallback} x resolver lacking {nothing, rng, dh, cipher, "
                "hash} = 39 520 build cases, each built on the real code (stub resolver for the missing primitive) and the "
                "result/kind compared with the prerequisites DERIVED from the token table; plus sessions in which one endpoint "
                "is built without one of its PSKs: the error must come at the message that needs it and set_psk at any later "
                "time must let the same step succeed; honest runs from accepted configurations never hit "
                "MissingKeyMaterial (NeverStuck, all honest sessions of C01/C02)", ASSUME_SYMBOLIC)
    res["coverage"]["exhaustive"] = True
    return res


def odd_names_leg(prop, tier, seed):
    """Sessions whose protocol name spells its psk numerals with a leading zero (psk03): the verbatim string is what
    must be hashed (C13), and the transcript must still be the specification's for THAT string (C01)."""
    t = session(f"{prop.lower()}-oddnames", OddNames=True, PskMode="only" if tier == "quick" else "all", PubLens=[32],
                InitPads=[True], Variants=["tr"], TrafficMode="short",
                PatSet=(["N", "NN", "XX", "IK", "X1X1", "KK"] if tier == "quick" else BASE))
    r = replay(prop, t, seed, 1)
    return t, r


def c13(tier, seed):
    names = name_table()
    d = os.path.join(WORK, "c13-names")
    os.makedirs(d, exist_ok=True)
    nd = os.path.join(d, "names.ndjson")
    seeds, rnd = (60, 5000) if tier == "quick" else (1500, 200000)
    rc, out = harness(["names", "--names", names, "--seed", str(seed), "--seeds", str(seeds), "--random", str(rnd),
                       "--out", nd])
    nstr = json.loads(out.strip().splitlines()[-1])["strings"]
    os.environ["NAMES_FILE"] = nd
    t = run_tlc("MC_NamesJudge", {"HfsBuild": False}, invariants=["Finished"], name="c13-judge", workers=1, timeout=3000)
    del os.environ["NAMES_FILE"]
    bad = [json.loads(json.loads(ln[len('<<"BAD", '):-3 + 1].rstrip(">")))
           for ln in open(t["out"]) if ln.startswith('<<"BAD"')]
    judged = [ln for ln in open(t["out"]) if ln.startswith('<<"JUDGED"')]
    if not judged:
        raise ToolError("names judge did not finish")
    accepted = int(judged[0].strip().rstrip(">").split(",")[-1])
    viol = []
    os.makedirs(os.path.join(REPLAYS, "C13"), exist_ok=True)
    for b in bad[:12]:
        p = os.path.join(REPLAYS, "C13", hashlib.sha256(b["s"].encode()).hexdigest()[:16] + ".json")
        json.dump(dict(property="C13", string=b["s"], verdict=b["verdict"], observed=b["rec"]), open(p, "w"))
        viol.append(dict(op="parse", what=b["verdict"], cause="", expected="grammar of spec/NoiseNames.tla",
                         observed=json.dumps(b["rec"])[:200], replay=p, name=b["s"]))
    samples = [json.loads(x) for x in list(open(nd))[13344:13350]]
    cov = dict(states=t["distinct"], transitions=t["states"], traces_validated_against_impl=nstr,
               samples=samples, evaluations=nstr, distinct_nontrivial=nstr - accepted,
               strings_judged=nstr, strings_accepted=accepted, mismatches=len(bad),
               rule="every one of the 13 344 names of the TLC-enumerated language (spec/MC_NameTable.tla also checks "
                    "ParseName o NameOf = identity on all of them) is parsed by snow; then the harness applies generic "
                    "character-level edits it has no grammar for (insert 28 different fragments at every position, delete, "
                    "duplicate, case-flip, replace every character, drop/duplicate/swap fields) to seeded names and random "
                    "near-miss strings, parses each with snow, and TLC judges every (string, outcome, parsed components, "
                    "verbatim name, error class) record with ParseName of spec/NoiseNames.tla; distinct_nontrivial = strings "
                    "that must be rejected", exhaustive=False)
    os.remove(nd)
    # the hfs build has another parsing function: the same treatment on the second harness, over the hfs names AND the
    # default names (which the hfs build must still accept), judged with ParseNameH(_, TRUE)
    allf = os.path.join(d, "allnames.out")
    with open(allf, "w") as f:
        f.write(open(name_table_hfs()).read())
        f.write(open(names).read())
    hseeds, hrnd = (20, 3000) if tier == "quick" else (600, 100000)
    rc, out = harness(["names", "--names", allf, "--extra", name_table_hfs(), "--seed", str(seed + 7), "--seeds", str(hseeds),
                       "--random", str(hrnd), "--out", nd], hfs=True)
    hstr = json.loads(out.strip().splitlines()[-1])["strings"]
    os.environ["NAMES_FILE"] = nd
    th = run_tlc("MC_NamesJudge", {"HfsBuild": True}, invariants=["Finished"], name="c13-judge-hfs", workers=1, timeout=3000)
    del os.environ["NAMES_FILE"]
    hbad = [json.loads(json.loads(ln[len('<<"BAD", '):-3 + 1].rstrip(">")))
            for ln in open(th["out"]) if ln.startswith('<<"BAD"')]
    hj = [ln for ln in open(th["out"]) if ln.startswith('<<"JUDGED"')]
    if not hj:
        raise ToolError("names judge (hfs build) did not finish")
    hacc = int(hj[0].strip().rstrip(">").split(",")[-1])
    for b in hbad[:12]:
        p = os.path.join(REPLAYS, "C13", "hfs-" + hashlib.sha256(b["s"].encode()).hexdigest()[:16] + ".json")
        json.dump(dict(property="C13", build="hfs", string=b["s"], verdict=b["verdict"], observed=b["rec"]), open(p, "w"))
        viol.append(dict(op="parse(hfs build)", what=b["verdict"], cause="", expected="grammar of spec/NoiseNames.tla (ParseNameH, hfs build)",
                         observed=json.dumps(b["rec"])[:200], replay=p, name=b["s"]))
    cov["states"] += th["distinct"]
    cov["transitions"] += th["states"]
    cov["traces_validated_against_impl"] += hstr
    cov["evaluations"] += hstr
    cov["distinct_nontrivial"] += hstr - hacc
    cov["hfs_build"] = dict(strings_judged=hstr, strings_accepted=hacc, mismatches=len(hbad),
                            names_enumerated=count_lines(allf, "NAME"))
    cov["rule"] += ("; HFS BUILD (another parsing function): all 25 272 hfs names (35 interactive patterns x psk sets x hfs before/"
                    "after the psk modifiers x 2 DH x Kyber1024 x 3 ciphers x 4 hashes; round trip checked by TLC, and each must be "
                    "REJECTED by the default grammar) plus the 13 344 default names are parsed by the hfs build of the crate, then the "
                    "same generic edits (with KEM/hfs fragments) and random strings; TLC judges each record with ParseNameH(s, TRUE): "
                    "'hfs' is a modifier, the DH field may be <dh>+<kem>, a KEM is named iff hfs is present")
    os.remove(nd)
    os.remove(allf)
    to, ro = odd_names_leg("C13", tier, seed)
    viol += ro["violations"]
    cov["states"] += to["distinct"]
    cov["transitions"] += to["states"]
    cov["traces_validated_against_impl"] += ro["instances"]
    cov["odd_spelling_sessions"] = ro["instances"]
    cov["rule"] += ("; plus honest sessions whose name spells the psk numerals with a leading zero (psk03): the verbatim "
                    "string is what is hashed, so every byte must be the specification's for that string")
    return dict(level="model_checking", coverage=cov, violations=viol,
                assumptions=["the grammar in spec/NoiseNames.tla is the Noise rev 34 section 8 grammar plus snow's documented "
                             "P256/XChaChaPoly/448 names; psk numerals up to 255 with leading zeros are accepted (the "
                             "property does not define the numeral)"])


def c20(tier, seed):
    # (a) every backend assignment conforms to the same backend-free specification
    if tier == "quick":
        t1 = session("c20-honest", PskMode="single", PubLens=[32], Profiles=["mid", "kilo"], BufModes=["big", "exact"],
                     Variants=["tr", "sl"])
        r1 = replay("C20", t1, seed, 1, backends="mix-sample", threads=14)
        t3 = transport("c20-transport", MaxSend=2, Depth=3, BadBudget=1, SetBudget=0, RekeyBudget=1, SmallBufs=True)
        r3 = replay("C20", t3, seed, 1, backends="mix-sample", threads=14)
    else:
        t1 = session("c20-honest", PskMode="all", PubLens=[32], Profiles=["small", "mid", "kilo", "max"], BufModes=["big", "exact"],
                     Variants=["tr", "sl"])
        r1 = replay("C20", t1, seed, 2, backends="mix", threads=14)
        t3 = transport("c20-transport", MaxSend=2, Depth=4, BadBudget=1, SetBudget=1, RekeyBudget=2, SmallBufs=True)
        r3 = replay("C20", t3, seed, 1, backends="mix", threads=14)
    # (b) fallback truth table
    t2 = run_tlc("MC_Fallback", {"HfsF": False}, invariants=["IffEither"], name="c20-fallback", workers=1, timeout=300)
    resf = os.path.join(WORK, "c20-fallback", "result.json")
    rc, out = harness(["fallback", "--table", t2["out"], "--result", resf])
    fb = json.load(open(resf))
    # the hfs build's resolver interface has a fifth kind (the KEM): same table plus the kem rows, on the hfs harness
    t2h = run_tlc("MC_Fallback", {"HfsF": True}, invariants=["IffEither"], name="c20-fallback-hfs", workers=1, timeout=300)
    resfh = os.path.join(WORK, "c20-fallback-hfs", "result.json")
    rc, out = harness(["fallback", "--table", t2h["out"], "--result", resfh], hfs=True)
    fbh = json.load(open(resfh))
    fb = dict(rows=fb["rows"] + fbh["rows"], violations=fb["violations"] + fbh["violations"], samples=fb["samples"])
    os.makedirs(os.path.join(REPLAYS, "C20"), exist_ok=True)
    fviol = []
    for v in fb["violations"]:
        p = os.path.join(REPLAYS, "C20", "fallback-" + hashlib.sha256(json.dumps(v["row"]).encode()).hexdigest()[:12] + ".json")
        json.dump(dict(property="C20", fallback_row=v["row"], observed=v["observed"]), open(p, "w"))
        v["replay"] = p
        fviol.append(v)
    res = merge("model_checking", [t1, t3, t2], [r1, r3],
                RULE_D1 + "here: the specification has no notion of backend, so 'unobservable on the wire' is conformance of "
                "every backend assignment to the same terms: honest sessions and transport edges are replayed with the two "
                "endpoints independently assigned {default, fallback(ring,default), fallback(default,ring)} (quick: 3 of the 9 "
                "assignments per scenario, thorough: all 9) for names both backends support (25519 x {ChaChaPoly, AESGCM} x "
                "{SHA256, SHA512}); plus the complete FallbackResolver truth table (4 kinds x every choice x 2 x 2 "
                "availabilities = 44 rows) with marker resolvers", ASSUME_SYMBOLIC,
                extra_cov=dict(fallback_rows=fb["rows"]))
    res["violations"] += fviol
    return res


MM_ALL = ["prologue", "prologue_z", "psk", "rs_i", "rs_r", "rs_i_bit", "rs_r_bit", "rs_i_neg", "rs_r_neg"]


def c08(tier, seed):
    if tier == "quick":
        t = session("c08-mismatch", Mismatches=MM_ALL + ["none"], PskMode="single", InitPads=[False], Variants=["tr"],
                    TrafficMode="short")
        r = replay("C08", t, seed, 1, threads=14)
        t2 = session("c08-overwrite", OverwritePsk=True, PskMode="only", PubLens=[32], InitPads=[False], Variants=["tr"],
                     TrafficMode="short", PatSet=["NN", "XX", "IK", "N", "X1X1", "K1K", "KX", "NK1"])
        r2 = replay("C08", t2, seed, 1, threads=14)
        t3 = session("c08-missing-psk", PskMode="only", LatePsk=True, PubLens=[32], InitPads=[False], Variants=["tr"],
                     TrafficMode="short", PatSet=["NN", "XX", "IK", "N", "X1X1", "KX"])
        r3 = replay("C08", t3, seed, 1, threads=14)
        t4 = session("c08-multipsk", Mismatches=["psk", "psk_max"], PskMode="all", PubLens=[32], InitPads=[True, False],
                     Variants=["tr"], TrafficMode="short", PatSet=["N", "NN", "XX", "IK", "X1X1"])
        r4 = replay("C08", t4, seed, 1, threads=14)
        t5 = session("c08-name", Mismatches=["name"], PskMode="only", PubLens=[32], InitPads=[True], Variants=["tr"],
                     TrafficMode="short", PatSet=["N", "NN", "XX", "IK", "X1X1", "KK", "NK1"])
        r5 = replay("C08", t5, seed, 1, threads=14)
    else:
        t4 = session("c08-multipsk", Mismatches=["psk", "psk_max"], PskMode="all", PubLens=[32], Variants=["tr"],
                     TrafficMode="short")
        r4 = replay("C08", t4, seed, 1, threads=14)
        t3 = session("c08-missing-psk", PskMode="only", LatePsk=True, PubLens=[32], InitPads=[False], Variants=["tr"],
                     TrafficMode="short")
        r3 = replay("C08", t3, seed, 1, threads=14)
        t = session("c08-mismatch", Mismatches=MM_ALL + ["none"], PskMode="all", Variants=["tr", "sl"], TrafficMode="short")
        r = replay("C08", t, seed, 2, threads=14)
        t2 = session("c08-overwrite", OverwritePsk=True, PskMode="only", PubLens=[32], InitPads=[False], Variants=["tr"],
                     TrafficMode="short")
        r2 = replay("C08", t2, seed, 1, threads=14)
        t5 = session("c08-name", Mismatches=["name"], PskMode="all", PubLens=[32], InitPads=[True], Variants=["tr", "sl"],
                     TrafficMode="short")
        r5 = replay("C08", t5, seed, 1, threads=14)
    res = merge("model_checking", [t, t2, t3, t4, t5], [r, r2, r3, r4, r5], RULE_D1 +
                 "the protocol NAME: the two parties spell the same choice differently (psk3 / psk03 - both parse, the strings "
                 "differ, so must the transcripts: no channel); "
                 "several PSKs of which the lowest or the highest differs; "
                 "a PSK that one side simply does not hold (never replaced by a default); "
                 "also: set_psk on an already filled slot at any time (wrong key later replaced by the right one, and the "
                 "reverse), outcome predicted by the model; "
                 "here: the two endpoints are built with exactly one differing context item - the prologue, one PSK, the "
                 "pre-shared static key of the peer on either side (another valid key; the right key with its top bit "
                 "flipped) - for every pattern and psk variant the item applies to; TLC checks MismatchNoChannel and predicts "
                 "the call that fails; the real code must fail at that call (and nothing may cross afterwards). Name "
                 "mismatches with different primitives are covered by the protocol-agnostic mismatch driver (D2)",
                 ASSUME_SYMBOLIC)
    return add_d2(res, [d2("C08", "mismatch", 300 if tier == "quick" else 5000, seed),
                        d2("C08", "mismatch", 60 if tier == "quick" else 2000, seed, hfs=True)])


def c19(tier, seed):
    kinds = ["ralt", "rtrunc", "rleak"]
    if tier == "quick":
        t1 = session("c19-hs", FaultBudget=1, FaultKinds=kinds, Profiles=["mid", "kilo"], PskMode="single", PubLens=[32],
                     InitPads=[False], Variants=["tr"], TrafficMode="short",
                     PatSet=["NN", "XX", "IK", "X", "NK", "KK", "IX", "XK1", "X1X1", "K1X"])
        cfgs = [("c19-tr", dict(MaxSend=1, Depth=3, BadBudget=2, SetBudget=0, SmallBufs=True)),
                ("c19-tr-big", dict(MaxSend=0, Depth=2, BadBudget=1, SetBudget=0, SmallBufs=False, BigBudget=1)),
                ("c19-sl", dict(Stateful=False, MaxSend=1, Depth=2, BadBudget=1, SetBudget=0, SmallBufs=True))]
        bk = "mix-sample"
    else:
        t1 = session("c19-hs", FaultBudget=1, FaultKinds=kinds, Profiles=["mid", "zero", "kilo"], PskMode="single",
                     InitPads=[False], Variants=["tr"], TrafficMode="short")
        cfgs = [("c19-tr", dict(MaxSend=2, Depth=4, BadBudget=2, SetBudget=0, SmallBufs=True)),
                ("c19-tr-big", dict(MaxSend=1, Depth=3, BadBudget=1, SetBudget=0, SmallBufs=False, BigBudget=1)),
                ("c19-sl-big", dict(Stateful=False, MaxSend=0, Depth=2, BadBudget=1, SetBudget=0, SmallBufs=False, BigBudget=1)),
                ("c19-sl", dict(Stateful=False, MaxSend=1, Depth=3, BadBudget=2, SetBudget=0, SmallBufs=True))]
        bk = "mix-sample"
    # default backend for every cipher (incl. XChaChaPoly, BLAKE2), then ring-backed assignments
    r1 = replay("C19", t1, seed, 2, threads=14)
    t1b = session("c19-hs-ring", FaultBudget=1, FaultKinds=kinds, Profiles=["mid"], PubLens=[32], InitPads=[True, False],
                  Variants=["tr"], TrafficMode="short", PatSet=["NN", "XX", "IK", "X", "KK"])
    r1b = replay("C19", t1b, seed, 1, threads=14, backends=bk)
    # a read that the specification ACCEPTS must not be turned into a rejection that leaves its payload behind: sessions in
    # which the builder was handed another key than the one the peer then transmits (the transmitted key is the one that counts)
    t1c = session("c19-other-rs", ExtraRs=[True], ExtraRsOther=True, Profiles=["mid"], PubLens=[32], InitPads=[False], Variants=["tr"],
                  TrafficMode="short", PatSet=(["XX", "IX", "NX", "XN", "X1X1", "X"] if tier == "quick" else BASE))
    r1c = replay("C19", t1c, seed, 1, threads=14)
    tl, rl = [t1, t1b, t1c], [r1, r1b, r1c]
    for name, c in cfgs:
        t = transport(name, **c)
        rl.append(replay("C19", t, seed, 2, threads=14))
        tl.append(t)
        t = transport(name + "-ring", **c)
        rl.append(replay("C19", t, seed, 1, threads=14, backends=bk))
        tl.append(t)
    return merge("model_checking", tl, rl, RULE_D1 +
                 "here: reads that fail (every field altered at its first byte, at its last byte = the tag, or replaced by "
                 "junk; truncations) on the three read paths (handshake, stateful, stateless), with payload buffers exactly the "
                 "genuine payload's size, 8 bytes larger, and far larger, for all ciphers on the default backend and for "
                 "ring-backed endpoints; for each failing read the MODEL lists the plaintexts at stake (LeakSet: payload and "
                 "decrypted static key of the message's AEAD fields); the caller's buffer (pre-filled with a pattern) must not "
                 "contain any 8-byte run of any of them", ASSUME_SYMBOLIC + ["payload bytes are high-entropy, so a chance "
                 "8-byte match has probability about 2^-64 per comparison"])


def c10(tier, seed):
    names = name_table()
    # (a) model-derived boundaries: every failing call of Appendix A at every field boundary, every phase
    if tier == "quick":
        t1 = session("c10-faults", FaultBudget=1, PubLens=[65], InitPads=[False], Variants=["tr"], TrafficMode="short",
                     Profiles=["small"])
        r1 = replay("C10", t1, seed, 1, threads=14)
        sm = dict(FullRollback=True, PatSetS=["N", "NN", "XX", "IK", "X1X1", "K", "KX1"], PskSetS=[[], [0], [1]], Depth=7,
                  MaxFail=3, EmitEdges=True, HfsS=False)
        sessions = 150000
    else:
        t1 = session("c10-faults", FaultBudget=1, PskMode="single", PubLens=[32, 65], InitPads=[False], Variants=["tr", "sl"],
                     TrafficMode="short", Profiles=["small", "max"])
        r1 = replay("C10", t1, seed, 2, threads=14)
        sm = dict(FullRollback=True, PatSetS=BASE, PskSetS=[[], [0], [1], [2]], Depth=8, MaxFail=3, EmitEdges=True, HfsS=False)
        sessions = 5000000
    t2 = run_tlc("MC_StateMachine", sm, invariants=["InvS"], name="c10-sm", timeout=3000, view="ViewS",
                 action_constraint="EmitEdge")
    r2 = replay("C10", t2, seed, 1, threads=14)
    t3 = run_tlc("MC_Builder", dict(FullRollback=True, PatSetB=["NN", "XX", "K", "I1K1"], BuilderDhs=["25519", "P256"], HfsB=False), invariants=["PrereqSane"],
                 name="c10-builder", workers=1, timeout=1200)
    r3 = replay("C10", t3, seed, 1, threads=14)
    t4 = transport("c10-transport", MaxSend=1, Depth=3, BadBudget=2, SetBudget=1, RekeyBudget=1, SmallBufs=True)
    r4 = replay("C10", t4, seed, 1, threads=14)
    t5 = transport("c10-transport-big", MaxSend=1, Depth=2, BadBudget=1, SetBudget=0, SmallBufs=True, BigBudget=1)
    r5 = replay("C10", t5, seed, 1, threads=14)
    t6 = transport("c10-transport-sl", Stateful=False, MaxSend=1, Depth=2, BadBudget=1, SetBudget=0, SmallBufs=True, BigBudget=1)
    r6 = replay("C10", t6, seed, 1, threads=14)
    # name strings: the generic edits of the C13 driver, here only asked not to panic
    nd = os.path.join(WORK, "c10-names.ndjson")
    rc, out = harness(["names", "--names", names, "--seed", str(seed), "--seeds", "60" if tier == "quick" else "600",
                       "--random", "20000" if tier == "quick" else "500000", "--out", nd, "--skip-language"])
    nstr = json.loads(out.strip().splitlines()[-1])["strings"]
    npan = []
    for ln in open(nd):
        if '"err":"panic"' in ln or '"err": "panic"' in ln:
            npan.append(json.loads(ln)["s"])
    os.remove(nd)
    # ... and the hfs build's parser (another function) on edits of hfs names
    rc, out = harness(["names", "--names", name_table_hfs(), "--extra", name_table_hfs(), "--seed", str(seed + 3),
                       "--seeds", "40" if tier == "quick" else "400", "--random", "10000" if tier == "quick" else "300000",
                       "--out", nd, "--skip-language"], hfs=True)
    nstr += json.loads(out.strip().splitlines()[-1])["strings"]
    for ln in open(nd):
        if '"err":"panic"' in ln or '"err": "panic"' in ln:
            npan.append(json.loads(ln)["s"])
    os.remove(nd)
    # (b) random protocol-agnostic driver (contents, lengths 0..66000, key lengths 0..200, any call at any time)
    resf = os.path.join(WORK, "c10-fuzz.json")
    rc, out = harness(["fuzz", "--names", names, "--seed", str(seed), "--sessions", str(sessions), "--threads", "14",
                       "--result", resf, "--replay-dir", REPLAYS], timeout=7200)
    fz = json.load(open(resf))
    rc, out = harness(["fuzz", "--names", name_table_hfs(), "--seed", str(seed + 5), "--sessions", str(max(sessions // 8, 200)),
                       "--threads", "14", "--result", resf, "--replay-dir", REPLAYS], timeout=7200, hfs=True)
    fzh = json.load(open(resf))
    fz = dict(sessions=fz["sessions"] + fzh["sessions"], calls=fz["calls"] + fzh["calls"],
              violations=fz["violations"] + fzh["violations"])
    res = merge("exploration", [t1, t2, t3, t4, t5, t6], [r1, r2, r3, r4, r5, r6],
                "the model is total (every call in every state has a defined Ok/Err outcome), so a panic, abort or stall is an "
                "event no action explains. Two sources of cases: (a) TLC-derived boundaries replayed on the code under "
                "catch_unwind - every failing call of Appendix A at every field boundary -1/-16/-17 of every message "
                "(MC_Session faults), every call in every phase (MC_StateMachine edges), builder keys of lengths "
                "{0,1,31,32,33,56,57,64,65,66,100,200}, set_psk at positions {0,4,9,10,11,255,256,70000} with lengths "
                "{0,1,31,32,33,64}, transport boundary buffers and 65519/65520-byte payloads; (b) a random protocol-agnostic "
                "driver: sessions of 10-50 calls with boundary-biased lengths 0..66000, arbitrary message bytes, key lengths "
                "0..200, arbitrary name strings, conversions/rekeys/nonce settings at any time, with a stall watchdog; "
                "distinct_nontrivial counts distinct (scenario, name) pairs of (a) only", ASSUME_SYMBOLIC,
                extra_cov=dict(random_sessions=fz["sessions"], random_calls=fz["calls"], name_strings_parsed=nstr))
    res["coverage"]["evaluations"] += fz["calls"] + nstr
    res["violations"] += fz["violations"]
    os.makedirs(os.path.join(REPLAYS, "C10"), exist_ok=True)
    for s_ in npan[:3]:
        p = os.path.join(REPLAYS, "C10", "name-" + hashlib.sha256(s_.encode()).hexdigest()[:12] + ".json")
        json.dump(dict(property="C10", kind="name", string=s_), open(p, "w"))
        res["violations"].append(dict(op="parse", what="panic", cause="", expected="Ok or Err", observed="panic",
                                      replay=p, name=s_))
    return res


def c18(tier, seed):
    rnd = random.Random(seed * 7919 + 18)
    all_rl, all_rn = set(), set()

    def emit():
        # seed-derived extras, redrawn every few rounds; some lengths are drawn per size class and per alignment so that
        # short and long, aligned and unaligned classes are all met
        rl = sorted({rnd.randrange(0, 65520) for _ in range(3)} | {rnd.randrange(2 ** b, 2 ** (b + 1)) for b in (4, 7, 9, 11, 13)}
                    | {64 * rnd.randrange(1, 1000), 16 * rnd.randrange(1, 4000)})
        rn = sorted({"%016x" % rnd.getrandbits(64) for _ in range(3)} | {"%016x" % rnd.getrandbits(rnd.choice((20, 36, 52)))})
        all_rl.update(rl)
        all_rn.update(rn)
        return run_tlc("MC_Prims", dict(RandLens=rl, RandNonces=rn), invariants=["Laws"], name="c18-prims", workers=1,
                       timeout=600)
    t = emit()
    rounds = 6 if tier == "quick" else 400
    viol, evals, distinct, samples = [], 0, 0, []
    for k in range(rounds):
        if k and k % (2 if tier == "quick" else 10) == 0:
            t = emit()
        resf = os.path.join(WORK, "c18-prims", "result.json")
        rc, out = harness(["prims", "--cases", t["out"], "--seed", str(seed * 1000 + k), "--result", resf,
                           "--replay-dir", REPLAYS])
        r = json.load(open(resf))
        evals += r["evaluations"]
        distinct = max(distinct, r["distinct"])
        samples = r["samples"]
        viol += r["violations"]
        if viol:
            break
    cov = dict(evaluations=evals, distinct_nontrivial=distinct, samples=samples,
               explanation="structural layer only: HMAC/HKDF as term rewriting over a raw hash, AEAD law + nonce encodings, "
                           "REKEY, DH commutativity, key-pair consistency; the numeric cores of the third-party primitive "
                           "crates are the trusted base (cross-checked RustCrypto vs ring, RFC 4231/7748 vectors, Cacophony anchor)",
               rule="TLC (spec/MC_Prims.tla) checks the AEAD and DH laws on the terms and emits some 700 cases: HMAC for key lengths "
                    "{0,1,31,32,33,63,64,65,127,128} x data lengths {0,1,55,56,63,64,65,111,112,127,128,129,300}; HKDF with 1/2/3 "
                    "outputs x ikm lengths {0,1,32,56,65,300} as EXPANDED terms over the raw hash (ipad/opad, counter bytes, "
                    "chaining); AEAD for 16 nonces with every byte position of the counter set x ad/plaintext lengths up to "
                    "65519, each with 9 must-reject alterations (other key/nonce/ad, 4 flipped bytes incl. tag, nonce + 2^32, "
                    "nonce with top bit flipped); plus, per run, seed-derived lengths "
                    f"{sorted(all_rl)[:30]} ({len(all_rl)} in all; ad and plaintext; HMAC data) under seed-derived counters {sorted(all_rn)[:12]} ({len(all_rn)} in all), redrawn every few rounds; REKEY; DH public keys, shared secrets, commutativity, 12 arbitrary peer "
                    "strings; key generation. Each case is run through the public trait methods of the objects returned by "
                    "DefaultResolver and RingResolver (all 4 hashes, 3 ciphers, 2 curves) with fresh random keys/data per "
                    "round; distinct = distinct (backend, primitive, operation, lengths/nonce) combinations",
               states=t["distinct"], transitions=t["states"], rounds=rounds)
    return dict(level="other", coverage=cov, violations=viol,
                assumptions=["SHA-2, BLAKE2, ChaCha20, Poly1305, AES, GHASH, X25519, P-256 arithmetic in the third-party crates "
                             "(sha2, blake2, chacha20poly1305, aes-gcm, x25519-dalek/curve25519-dalek, p256, ring) is trusted; "
                             "this check decides only snow's own code at this layer (types.rs HMAC/HKDF, resolver wrappers, "
                             "nonce layouts, default rekey)"])


# ---------------------------------------------------------------- the hfs build
INTER = [p for p in ALL_PATTERNS if p not in ("N", "K", "X")]
SUB8 = ["NN", "NK", "XX", "IK", "KK", "X1X1", "IX", "XK1"]
RULE_HFS = ("; HFS BUILD: the same kind of scenarios for names with the hfs modifier and KEM Kyber1024 (tokens e1, ekem1; "
            "spec/NoisePatterns.tla HfsBase) replayed on a second harness built against /repo with features "
            "hfs,use-pqcrypto-kyber1024; KEM public keys, ciphertexts and secrets are oracle terms bound to what the "
            "recorded KEM object produced, everything around them (what is encrypted, hashed and mixed, in which order, "
            "lengths, failure causes, rollback) is compared byte for byte")


def hfs_legs(prop, tier, seed):
    """(tlc runs, replay results) of the hfs-build legs of a property; ([], []) if it has none."""
    q = tier == "quick"
    S = []      # (name, session constants, per_scn, backends)
    if prop in ("C01", "C17"):
        S.append(("honest", dict(PatSet=INTER, PskMode="none" if q else "all", Variants=["tr", "sl"]), 1 if q else 3, "default"))
        if q and prop == "C01":
            # psk combined with hfs, both modifier orders (two names per scenario)
            S.append(("psk", dict(PatSet=SUB8, PskMode="only", PubLens=[32], Variants=["tr"], TrafficMode="short"), 2, "default"))
    elif prop == "C02":
        S.append(("honest", dict(PatSet=SUB8 if q else INTER, PskMode="single", PubLens=[32] if q else [32, 65],
                                 Profiles=["zero", "max"] if q else ["zero", "small", "mid", "kilo", "max"],
                                 BufModes=["exact"] if q else ["big", "exact"]), 2, "default"))
    elif prop == "C03":
        S.append(("tamper", dict(PatSet=INTER, PskMode="none" if q else "single", PubLens=[32], Variants=["tr"], TamperBudget=1,
                                 TrafficMode="short"), 1, "default"))
    elif prop == "C06":
        S.append(("faults", dict(PatSet=SUB8 if q else INTER, FaultBudget=1, FaultKinds=["wbuf", "wmax", "turn", "routbuf", "ralt", "rtrunc"],
                                 PubLens=[32], InitPads=[False], Variants=["tr"], TrafficMode="short"), 1, "default"))
    elif prop == "C07":
        S.append(("faults", dict(PatSet=SUB8 if q else INTER, FaultBudget=1, PskMode="none" if q else "single", PubLens=[32],
                                 InitPads=[False], Variants=["tr"], TrafficMode="short"), 1, "default"))
    elif prop == "C08":
        S.append(("mismatch", dict(PatSet=INTER, PskMode="single", PubLens=[32], Variants=["tr"], TrafficMode="short",
                                   Mismatches=["prologue", "psk", "rs_i", "rs_r", "rs_i_bit", "rs_r_bit"]), 1, "default"))
    elif prop == "C10":
        S.append(("faults", dict(PatSet=["NN", "XX", "IK"] if q else INTER, FaultBudget=1, PubLens=[32] if q else [32, 65],
                                 InitPads=[False], Variants=["tr"], TrafficMode="short"), 1 if q else 2, "default"))
    elif prop == "C12":
        # a successfully built pair never fails later for missing key material: psk-bearing hfs names, both modifier orders
        S.append(("pairs", dict(PatSet=["NN", "XX", "IK", "NK", "X1X1"] if q else INTER, PskMode="only", PubLens=[32],
                                InitPads=[False], Variants=["tr"], TrafficMode="short"), 2, "default"))
    elif prop == "C14":
        S.append(("lengths", dict(PatSet=SUB8 if q else INTER, PskMode="single", PubLens=[32], Profiles=["zero", "max"],
                                  BufModes=["exact"], Variants=["tr"], TrafficMode="short"), 1, "default"))
        S.append(("lenfaults", dict(PatSet=SUB8 if q else INTER, FaultBudget=1, FaultKinds=["wbuf", "wmax", "rtrunc", "rext"],
                                    PubLens=[32], InitPads=[False], Variants=["tr"], TrafficMode="short"), 1, "default"))
    elif prop == "C19":
        S.append(("leak", dict(PatSet=SUB8 if q else INTER, FaultBudget=1, FaultKinds=["ralt", "rtrunc", "rleak"], Profiles=["mid"],
                               PubLens=[32], InitPads=[False], Variants=["tr"], TrafficMode="short"), 1, "default"))
    elif prop == "C20":
        S.append(("backends", dict(PatSet=SUB8 if q else INTER, PskMode="single", PubLens=[32], Profiles=["mid"],
                                   Variants=["tr", "sl"]), 1, "mix-sample" if q else "mix"))
    tl, rl = [], []
    for nm, consts, per, bk in S:
        t = session(f"{prop.lower()}-hfs-{nm}", Hfs=True, **consts)
        rl.append(replay(prop, t, seed, per, threads=14, backends=bk, hfs=True))
        tl.append(t)
    if prop == "C11":
        c = dict(FullRollback=True, PatSetS=["NN", "XX", "IK", "X1X1"] if q else INTER, PskSetS=[[], [0]] if q else [[], [0], [2]],
                 Depth=6 if q else 7, MaxFail=2, EmitEdges=True, HfsS=True)
        t = run_tlc("MC_StateMachine", c, invariants=["InvS"], name="c11-hfs-sm", timeout=3000, view="ViewS",
                    action_constraint="EmitEdge")
        rl.append(replay(prop, t, seed, 1, threads=14, dh="25519", hfs=True))
        tl.append(t)
    if prop == "C12":
        t = run_tlc("MC_Builder", dict(FullRollback=True, PatSetB=BASE, BuilderDhs=["25519", "P256"], HfsB=True),
                    invariants=["PrereqSane"], name="c12-hfs-builder", workers=1, timeout=1200)
        # ... for the default backend and for fallback pairs (which must find the KEM of whichever member has one)
        rl.append(replay(prop, t, seed, 1, threads=14, hfs=True, backends="mix-sample"))
        tl.append(t)
    return tl, rl


def with_hfs(prop, fn):
    def run(tier, seed):
        global _EXTRA
        tl, rl = hfs_legs(prop, tier, seed)
        _EXTRA = (tl, rl, RULE_HFS) if tl else None
        try:
            return fn(tier, seed)
        finally:
            _EXTRA = None
    return run


CHECKS = {
    "C01": c01, "C02": c02, "C03": c03, "C04": c04, "C05": c05, "C06": c06, "C07": c07, "C08": c08, "C09": c09, "C10": c10, "C11": c11, "C12": c12, "C13": c13,
    "C14": c14, "C15": c15, "C16": c16, "C17": c17, "C18": c18, "C19": c19, "C20": c20,
}
for _p in ("C01", "C02", "C03", "C06", "C07", "C08", "C10", "C11", "C12", "C14", "C17", "C19", "C20"):
    CHECKS[_p] = with_hfs(_p, CHECKS[_p])


def selftest(tier, seed):
    """Shows that the checks bite: the model's invariants are not vacuous, and the binding rejects corrupted traces."""
    import subprocess
    ok = True

    def expect(cond, what):
        nonlocal ok
        log(("ok   " if cond else "FAIL ") + what)
        ok = ok and cond

    # (a) the partial rollback of the pinned code, as a model switch: TLC must find the design-level counterexample
    try:
        session("selftest-partial-rollback", invariants=("Inv",), FullRollback=False, FaultBudget=1, PatSet=["XX", "IK"],
                PubLens=[32], InitPads=[False], Variants=["tr"], FixedEs=[True], TrafficMode="short", Emit=False)
        expect(False, "TLC finds a violated invariant with FullRollback = FALSE (C07/C06 at design level)")
    except ToolError as e:
        expect("is violated" in str(e), "TLC finds a violated invariant with FullRollback = FALSE (C07/C06 at design level)")
    # (b) the nonce guard removed: Apalache must refute the inductive step
    os.makedirs(os.path.join(WORK, "selftest-apalache"), exist_ok=True)
    p = subprocess.run(["timeout", "600", "apalache-mc", "check", f"--out-dir={os.path.join(WORK, 'selftest-apalache')}",
                        "--cinit=ConstInitBug", "--init=IndInit", "--inv=IndInv", "--length=1",
                        os.path.join(SPEC, "NonceInd.tla")], capture_output=True, text=True, cwd=SPEC,
                       env=dict(os.environ, TMPDIR=os.path.join(WORK, "selftest-apalache")))
    expect("EXITCODE: ERROR" in p.stdout and "violat" in p.stdout.lower(), "Apalache refutes IndInv when the nonce guard is removed")
    subprocess.run(["rm", "-rf", os.path.join(WORK, "selftest-apalache")])
    # (c) corrupted traces are rejected
    names = name_table()
    d = os.path.join(WORK, "selftest-trace")
    os.makedirs(d, exist_ok=True)
    nd = os.path.join(d, "t.ndjson")
    harness(["trace", "--names", names, "--seed", str(seed), "--sessions", "6", "--profile", "honest", "--out", nd])
    lines = [json.loads(x) for x in open(nd)]
    t, line, ev = validate_trace(nd, "selftest-trace-ok")
    expect(line is None, "the unmodified trace is accepted")

    def variant(name, f):
        ls = [dict(x) for x in lines]
        f(ls)
        p2 = os.path.join(d, name + ".ndjson")
        open(p2, "w").write("\n".join(json.dumps(x) for x in ls) + "\n")
        t2, line2, ev2 = validate_trace(p2, "selftest-trace-" + name)
        expect(line2 is not None, f"trace with {name} is rejected" + (f" (at line {line2})" if line2 else ""))

    iw = next(i for i, x in enumerate(lines) if x["ev"] == "hs_write" and x["res"] == "ok")
    ir = next(i for i, x in enumerate(lines) if x["ev"] == "hs_read" and x["res"] == "ok" and x["len"] > 0)
    variant("a wrong message length", lambda ls: ls[iw].__setitem__("len", ls[iw]["len"] + 1))
    variant("a delivered payload that is not the written one", lambda ls: ls[ir].__setitem__("payload", "v99999"))
    variant("a dropped read event", lambda ls: ls.pop(ir))
    variant("a flipped turn indicator", lambda ls: ls[iw]["obs"].__setitem__("turn", not ls[iw]["obs"]["turn"]))
    variant("different handshake hashes on the two sides", lambda ls: ls[ir]["obs"].__setitem__("hh", "v88888"))
    return 0 if ok else 2
