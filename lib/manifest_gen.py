#!/usr/bin/env python3
"""Regenerates /verif/MANIFEST.json from the table below (kept next to the checks it describes)."""
import json
import os
import subprocess

ROOT = os.path.dirname(os.path.dirname(os.path.abspath(__file__)))

TLA = "explicit TLA+ specification (spec/*.tla) checked by TLC; "
HFS = " The hfs build (hfs modifier, Kyber1024) is covered by the same method on a second harness build (KEM values as oracle terms)."
PROBE = (" Every transport edge is followed by a model-computed probe round trip (I writes, R reads, R writes, I reads), so the keys "
         "both sides hold after the edge are compared, not only the reported counters.")
TB = ("trusted: TLC; the symbolic-crypto assumptions of spec/NoiseTerms.tla; the third-party primitive crates used by the "
      "independent evaluator (cross-checked against ring and anchored to the 472 Cacophony vectors); the harness executor")

CLAIMED = {
    "C01": ("model_checking", "3, 4.1, 5 (C01)",
            "TLC computes the specification's transcript (every handshake message, handshake hash, encrypted flag, split keys, "
            "transport messages) for every pattern/psk-set/key-length/init class; the specification is first anchored to an "
            "independent implementation (472 Cacophony vectors); every transcript is replayed on snow and compared byte for "
            "byte through an independent term evaluator. Right level: conformance to a reference needs an executable reference "
            "and byte-exact binding; inputs (keys, payloads, prologues) are sampled." + HFS,
            TLA + "scenario replay with byte-exact comparison (D1)"),
    "C02": ("model_checking", "5 (C02)",
            "TLC checks Completes/Agreement/Delivery/RawSplitAgrees on every state of honest sessions of all explored classes "
            "(stateful+stateless, both directions, payloads 0..max-fit); each behaviour is replayed on snow with per-call "
            "comparison of results, lengths, hashes and delivered payloads." + HFS,
            TLA + "invariants on the session model + scenario replay (D1) + trace validation of real-RNG sessions (D2)"),
    "C03": ("model_checking", "5 (C03)",
            "Adversary = mutator/replayer without keys. TLC explores every single alteration class of every handshake message "
            "(per field flips/junk, truncation at and inside every field, extension, substitution by an earlier message), "
            "checks NoSilentCompletion and EncryptedFieldRejectedAtOnce, and predicts the failing call; the real code must "
            "fail at that call." + HFS,
            TLA + "adversary model + scenario replay (D1)"),
    "C04": ("model_checking", "5 (C04)",
            "MC_Transport offers every pool message to both endpoints (reflection, cross-direction), altered/truncated/"
            "extended/garbage/donor-session messages, and in stateless mode every nonce pair; invariant OnlyPeerAccepted; "
            "every edge of the state graph is replayed on the code for default and ring-backed sessions." + PROBE,
            TLA + "edge-cover scenario replay (D1)"),
    "C05": ("model_checking", "5 (C05)",
            "All delivery schedules (reorder/loss/duplication/garbage/undersized buffers/explicit receiving nonce) explored "
            "exhaustively within the stated depth; invariants InOrderOnce, RejectIsNoOp; result and both nonces compared after "
            "every call of every edge." + PROBE,
            TLA + "edge-cover scenario replay (D1) + trace validation of long random delivery schedules (D2)"),
    "C06": ("model_checking", "5 (C06)",
            "History variable aeadLog over both endpoints incl. failed calls, retries, late set_psk; invariants NoNonceReuse, "
            "ReservedUnused. On the code, a recording Cipher/Random (via Builder::with_resolver) logs every encryption and draw "
            "and the same predicates are evaluated on the observed operations." + HFS,
            TLA + "history-variable invariant + recording-resolver observation of replayed scenarios"),
    "C07": ("fault_enumeration", "5 (C07), Appendix A",
            "TLC enumerates the fault space from the model's message layout (every cause of Appendix A at every field boundary, "
            "both sides, every message) and computes the expected continuation; the code must return the documented error kind, "
            "keep every observable unchanged and then produce exactly the failure-free bytes." + HFS,
            TLA + "model-derived fault enumeration replayed on the code (D1) + trace validation of faulty random sessions and of the repository's own tests (D2)"),
    "C08": ("model_checking", "5 (C08)",
            "The two endpoints are built with exactly one differing context item (prologue, one PSK, the pre-shared static "
            "key of the peer on either side: another valid key / the right key with one bit flipped), or overwrite a PSK "
            "with set_psk at any time; invariant MismatchNoChannel / OverwriteTakesEffect; the model predicts the failing "
            "call and the code must fail there. Name mismatches with different primitives are outside the symbolic "
            "evaluator (one primitive set per scenario)." + HFS,
            TLA + "mismatch configurations of the session model + scenario replay (D1) + trace validation of mismatched sessions (D2)"),
    "C09": ("model_checking", "5 (C09)",
            "Counters are placed two below 2^64-1 (sender through the verif-hooks hook) and every interleaving of ok/failing "
            "reads/writes and explicit settings is explored; invariants StepsByOne, ExhaustedFails, ReservedUnused; the "
            "recording cipher flags any use of nonce 2^64-1 other than the REKEY input." + PROBE,
            TLA + "edge-cover scenario replay at the top of the 64-bit range (D1) + recording cipher + Apalache inductive invariant for an unbounded counter (NonceInd.tla)"),
    "C10": ("exploration", "5 (C10)",
            "The model is total, so a panic/abort/stall is an event no action explains. TLC supplies the boundary cases "
            "(every Appendix-A cause at every field boundary, every call in every phase, key lengths, set_psk positions), "
            "replayed under catch_unwind; arbitrary contents/lengths/names come from a random protocol-agnostic driver "
            "with a stall watchdog. Exploration level: contents are sampled, not exhausted." + HFS,
            TLA + "model-derived boundary scenarios + random driver under catch_unwind"),
    "C11": ("model_checking", "5 (C11)",
            "MC_StateMachine explores every call sequence over the full API alphabet (both endpoints, all phases, early "
            "conversions, transport one-way rules) to a depth bound with a bound on failing calls, for all 38 patterns + psk "
            "representatives; invariants Indicators, OutOfPhase, ConvertOnlyFinished, OneWayS; every edge replayed." + HFS,
            TLA + "edge-cover scenario replay (D1) + trace validation of the repository's own tests (D2)"),
    "C12": ("model_checking", "5 (C12)",
            "Complete enumeration of the finite build space (19 760 cases) with prerequisites derived from the token table "
            "of the specification; late-PSK sessions show the error arises at the message that needs the PSK and set_psk "
            "repairs it." + HFS,
            TLA + "exhaustive enumeration replayed on the code (D1)"),
    "C13": ("model_checking", "5 (C13)",
            "Both directions: snow parses every name of the TLC-enumerated language (components and verbatim name compared; "
            "ParseName o NameOf = id checked by TLC), and TLC judges (ParseName of spec/NoiseNames.tla) every outcome snow "
            "produces on generic character-level edits and random near-miss strings." + HFS,
            TLA + "grammar enumeration + TLC-judged parse records (D1 + D2)"),
    "C14": ("model_checking", "5 (C14)",
            "Lengths are computed by the model from the fields written (Framing invariant) and compared on every call; boundary "
            "payloads (0, max-fit, max-fit+1) and buffers one byte / one tag short of every field end." + HFS,
            TLA + "Framing invariant + boundary scenario replay (D1)"),
    "C15": ("model_checking", "5 (C15)",
            "Every bounded sequence of write/deliver/rekey_outgoing/rekey_incoming/rekey_manually on both sides, stateful and "
            "stateless; REKEY(k) is a term evaluated from its definition with independent primitives so post-rekey bytes are "
            "compared exactly; in-sync delivers, out-of-sync rejects follows from the AEAD law of the model." + PROBE,
            TLA + "edge-cover scenario replay with byte-exact REKEY (D1) + trace validation of rekey storms and of the repository's own tests (D2)"),
    "C16": ("model_checking", "5 (C16)",
            "Stateless writes/reads under nonces {0,1,2,2^32,2^32+1,2^63,2^64-3..2^64-1} in any order and repetition, "
            "maximum-size payloads, default and ring backends; the expected message under nonce n is the term of the stateful "
            "sender's n-th message. Thread interleavings are sampled by a multi-threaded driver (not enumerated)." + PROBE,
            TLA + "edge-cover scenario replay (D1) + trace validation of 8 threads sharing one stateless session (D2)"),
    "C17": ("model_checking", "5 (C17)",
            "RemoteStaticCorrect on every state; get_remote_static() compared with the model term after every call on all three "
            "state types for 32- and 65-byte keys, including after rejected reads and across both conversions." + HFS,
            TLA + "state invariant + per-call observable comparison (D1)"),
    "C18": ("other", "5 (C18)",
            "Only snow's own code at the primitive layer is decided: HMAC/HKDF as term rewriting over a raw hash, nonce "
            "encodings and the AEAD law (encrypt equals the reference, decrypt inverts, 9 alteration classes rejected), "
            "default REKEY, DH wrappers and key generation, for both resolvers. Bit-level correctness of the third-party "
            "primitive crates for all inputs is numeric fidelity a TLA+ model cannot decide; they are the trusted base.",
            TLA + "term-rewriting definition of HMAC/HKDF/AEAD law; trait-method differential against an independent evaluator"),
    "C19": ("model_checking", "5 (C19)",
            "For every failing read explored (3 read paths x alteration of tag / body / static-key field x buffer exact / "
            "+8 / large x all ciphers x default and ring backends) the model lists the plaintexts at stake (LeakSet) and the "
            "caller's pre-filled buffer must not contain any 8-byte run of them." + HFS,
            TLA + "model-derived leak sets checked on replayed scenarios (D1)"),
    "C20": ("model_checking", "5 (C20)",
            "The specification is backend-free: every backend assignment {default, fallback(ring,default), "
            "fallback(default,ring)}^2 must conform to the same terms (honest sessions + transport edges, incl. exact-size "
            "buffers); FallbackResolver truth table enumerated completely with marker resolvers." + HFS,
            TLA + "scenario replay under all backend assignments + exhaustive truth table"),
}

PENDING = {}


def main():
    props = [json.loads(l) for l in open(os.path.join(ROOT, "properties.jsonl"))]
    import sys
    sys.path.insert(0, os.path.join(ROOT, "lib"))
    hooks = subprocess.run(["git", "-C", "/repo", "log", "--format=%h", "--grep", "^verif-hooks"], capture_output=True,
                           text=True).stdout.split()
    checks, na = [], []
    for p in props:
        pid = p["id"]
        if pid in CLAIMED:
            cat, ref, text, tech = CLAIMED[pid]
            checks.append(dict(
                property_id=pid,
                quick_cmd=f"./check {pid} --tier quick",
                thorough_cmd=f"./check {pid} --tier thorough",
                evidence_file=f"/verif/evidence/{pid}.json",
                replay_cmd_template=f"./check {pid} --replay {{path}}",
                engine="tlc+snowverif",
                level_claimed=dict(category=cat, text=text, design_ref="DESIGN.md section " + ref),
                level_note=TB,
                technique=tech))
        else:
            na.append(dict(property_id=pid, reason=PENDING.get(pid, "check not built yet in this round (planned: DESIGN.md section 5)")))
    m = dict(
        version=1,
        setup_cmd="./check setup",
        hooks=dict(guard="verif-hooks (cargo feature of snow)",
                   enable="harness/Cargo.toml depends on /repo by path with features [..., \"verif-hooks\"]; "
                          "the only hook is TransportState::verif_set_sending_nonce(u64)",
                   baseline_off_cmd="cd /repo && cargo test --workspace --no-fail-fast --offline",
                   source_commits=hooks, add_only=True),
        engines=[dict(name="tlc+snowverif", path="/verif/check",
                      serves_properties=sorted(CLAIMED),
                      kind_free_text="TLA+ specification (spec/) model-checked by TLC; scenarios replayed / traces validated "
                                     "against /repo by the Rust harness (harness/), built twice from /repo's working tree: "
                                     "default build (features ring-resolver,use-p256,use-xchacha20poly1305,risky-raw-split,"
                                     "verif-hooks) and hfs build (plus hfs,use-pqcrypto-kyber1024; harness/target-hfs)")],
        checks=checks,
        notes="exit 0 held / 1 VIOLATION (with replay file) / 2 tool error. Known findings: /verif/known_findings.json. "
              "C01-C03, C06-C08, C10-C14, C17, C19, C20 also run hfs-build legs (names with the hfs modifier and Kyber1024).",
        not_applicable=na)
    json.dump(m, open(os.path.join(ROOT, "MANIFEST.json"), "w"), indent=1)
    print(f"MANIFEST.json: {len(checks)} checks, {len(na)} not claimed")


if __name__ == "__main__":
    main()
