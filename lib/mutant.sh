#!/bin/bash
# usage: lib/mutant.sh <patch.diff> <prop> [<prop> ...]   — apply a seeded change, run quick checks, undo.
# REPO_DIR / VERIF_DIR select a scratch copy (default: /repo and /verif themselves).
REPO_DIR=${REPO_DIR:-/repo}; VERIF_DIR=${VERIF_DIR:-/verif}
patch="$1"; shift
cd "$REPO_DIR" || exit 2
if ! git diff --quiet; then echo "$REPO_DIR dirty"; exit 2; fi
if ! git apply "$patch" 2>/dev/null; then
  if ! patch -p1 --no-backup-if-mismatch -s < "$patch"; then
    echo "PATCH-DOES-NOT-APPLY $patch"; git checkout -- .; git clean -fdq -e target; exit 3
  fi
fi
cd "$VERIF_DIR" || exit 2
for p in "$@"; do
  out=$(./check "$p" 2>&1); rc=$?
  nv=$(echo "$out" | grep -c '^VIOLATION')
  echo "RESULT patch=$patch prop=$p rc=$rc violations=$nv $(echo "$out" | grep -m1 '^\[check.*\]   ' | cut -c1-200)"
  if [ $rc -eq 2 ]; then echo "$out" | tail -5; fi
done
cd "$REPO_DIR" && git checkout -- . && git clean -fdq -e target
