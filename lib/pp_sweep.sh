#!/bin/bash
# usage: [PROPS="C04 C17"] lib/pp_sweep.sh <slot> <PP-id>...      (PROPS: only these checks; default all twenty)
# Property-PRESERVING changes (seeded_pp/): every quick check must stay quiet (exit 0, no VIOLATION line) on each of them.
# Runs in the scratch copy /tmp/sw<slot> like lib/sweep.sh; results in work/pp_results_<start time>_<slot>.txt
slot=$1; shift
base=/tmp/sw$slot
# one run per slot at a time (a second run would re-sync the copy under the first one)
exec 9>"/tmp/sw$slot.lock"
flock -n 9 || { echo "slot $slot is busy" >&2; exit 4; }
if [ ! -d "$base/repo" ]; then
  mkdir -p "$base" && git -C /repo worktree add -q --detach "$base/repo" HEAD
fi
git -C "$base/repo" checkout -q --detach "$(git -C /repo rev-parse HEAD)"
mkdir -p "$base/verif"
rsync -a --delete --exclude work --exclude replays --exclude harness/target --exclude harness/target-hfs --exclude facade/target --exclude .git /verif/ "$base/verif/"
sed -i "s#path = \"/repo\"#path = \"$base/repo\"#" "$base/verif/harness/Cargo.toml"
mkdir -p "$base/verif/work/cache"
out=/verif/work/pp_results_$(date -u +%Y%m%dT%H%M%S)_$slot.txt; : > "$out"
ln -sfn "$out" /verif/work/pp_latest_$slot.txt
for id in "$@"; do
  REPO_DIR=$base/repo VERIF_DIR=$base/verif /verif/lib/mutant.sh "/verif/seeded_pp/$id/patch.diff" \
    ${PROPS:-C01 C02 C03 C04 C05 C06 C07 C08 C09 C10 C11 C12 C13 C14 C15 C16 C17 C18 C19 C20} 2>&1 \
    | grep -e RESULT -e PATCH | sed "s#^#$id #" | cut -c1-330 >> "$out"
done
echo DONE >> "$out"
