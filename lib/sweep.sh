#!/bin/bash
# usage: lib/sweep.sh <slot> <id[:Cxx,Cyy]>...
# Runs seeded changes against quick checks in a scratch copy /tmp/sw<slot>/{repo,verif} - never in /repo itself.
# Results: /verif/work/sweep_results_<start time>_<slot>.txt (symlink work/sweep_latest_<slot>.txt). Remove the copy afterwards with lib/sweep_clean.sh <slot>.
slot=$1; shift
base=/tmp/sw$slot
# one run per slot at a time (a second run would re-sync the copy under the first one)
exec 9>"/tmp/sw$slot.lock"
flock -n 9 || { echo "slot $slot is busy" >&2; exit 4; }
if [ ! -d "$base/repo" ]; then
  mkdir -p "$base" && git -C /repo worktree add -q --detach "$base/repo" HEAD
fi
git -C "$base/repo" checkout -q --detach "$(git -C /repo rev-parse HEAD)"
mkdir -p "$base/verif"
rsync -a --delete --exclude work --exclude replays --exclude harness/target --exclude harness/target-hfs --exclude facade/target --exclude .git /verif/ "$base/verif/"
sed -i "s#path = \"/repo\"#path = \"$base/repo\"#" "$base/verif/harness/Cargo.toml"
mkdir -p "$base/verif/work/cache"
# one result file per run, named by start time: the report reads them in name order, so a later run overrides an earlier one
out=/verif/work/sweep_results_$(date -u +%Y%m%dT%H%M%S)_$slot.txt; : > "$out"
ln -sfn "$out" /verif/work/sweep_latest_$slot.txt
for d in "$@"; do
  id=${d%%:*}; props=${d#*:}
  [ "$props" = "$d" ] && props=$(python3 -c "import json;print(json.load(open('/verif/seeded/$id/meta.json'))['property'])")
  REPO_DIR=$base/repo VERIF_DIR=$base/verif /verif/lib/mutant.sh "/verif/seeded/$id/patch.diff" ${props//,/ } 2>&1 \
    | grep -e RESULT -e PATCH | sed "s#^#$id #" | cut -c1-330 >> "$out"
done
echo DONE >> "$out"
