#!/bin/bash
# usage: lib/sweep_clean.sh <slot>...   - remove the scratch copies made by lib/sweep.sh (worktree + build output)
for slot in "$@"; do
  base=/tmp/sw$slot
  [ -d "$base/repo" ] && git -C /repo worktree remove --force "$base/repo"
  rm -rf "$base"
done
git -C /repo worktree prune
