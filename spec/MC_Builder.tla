---------------------------- MODULE MC_Builder ----------------------------
(***************************************************************************)
(* C12: building an endpoint succeeds iff the pattern's prerequisites for  *)
(* that role are supplied, every modifier is implemented and fits the      *)
(* pattern's message count, and the resolver provides every primitive.     *)
(* The prerequisites are DERIVED from the token table (NoisePatterns:      *)
(* NeedsLocalStatic / NeedsRemoteStatic), not copied from snow.            *)
(* Complete enumeration: 38 patterns x 2 roles x 4 subsets of supplied     *)
(* static keys x modifier lists {none, psk0..psk9, fallback, psk1+fallback}*)
(* x resolver lacking {nothing, rng, dh, cipher, hash}.                    *)
(* One scenario (a single build step with the expected outcome) per case.  *)
(***************************************************************************)
EXTENDS Snow, NoiseNames, Json

CONSTANTS PatSetB, BuilderDhs,
          HfsB        \* TRUE: the scenarios of the hfs build (names with the hfs modifier and a KEM, resolver without a KEM)
VARIABLE done

sI == Atom("sI", 32)
sR == Atom("sR", 32)

ModLists == { <<>>, <<"fallback">>, <<"psk1", "fallback">> }
            \cup { <<"psk" \o ToString(n)>> : n \in 0..9 }
Lacks == {"none", "rng", "dh", "cipher", "hash"}
ModListsH == { <<"hfs">>, <<"hfs", "psk0">>, <<"psk1", "hfs">>, <<"psk2", "hfs">>, <<"hfs", "psk9">>, <<"hfs", "fallback">> }
LacksH == Lacks \cup {"kem"}
IsHfs(mods) == \E i \in 1..Len(mods) : mods[i] = "hfs"

PskIdxOf(mods) == { Dec(SubSeq(mods[i], 4, Len(mods[i]))) : i \in { j \in 1..Len(mods) : mods[j] \notin {"fallback", "hfs"} } }

CfgB(role, hasS, hasRS, psks) ==
  [ s  |-> IF hasS THEN (IF role = "i" THEN sI ELSE sR) ELSE None,
    rs |-> IF hasRS THEN Pub(IF role = "i" THEN sR ELSE sI) ELSE None,
    psk |-> [n \in 0..4 |-> IF n \in psks THEN Atom("psk" \o ToString(n), 32) ELSE None],
    prologue |-> Atom("prologue", 0), fixed_e |-> None ]

CausesB(p, role, hasS, hasRS, mods, lack) ==
     (IF ~hasS  /\ NeedsLocalStatic(p, role)  THEN {"B_NO_LOCAL_STATIC"} ELSE {})
  \cup (IF ~hasRS /\ NeedsRemoteStatic(p, role) THEN {"B_NO_REMOTE_STATIC"} ELSE {})
  \cup (IF \E i \in 1..Len(mods) : mods[i] = "fallback" THEN {"B_MODIFIER"} ELSE {})
  \cup (IF \E n \in PskIdxOf(mods) : n > NumMsgs(p) THEN {"B_PSK_INDEX"} ELSE {})
  \cup (IF IsHfs(mods) /\ p \in OneWay THEN {"B_MODIFIER"} ELSE {})       \* hfs needs a second message for the encapsulation
  \cup (IF lack \notin {"none", "kem"} \/ (lack = "kem" /\ IsHfs(mods)) THEN {"B_NO_" \o lack} ELSE {})

KindsB(cz) ==
  UNION { CASE c = "B_NO_LOCAL_STATIC"  -> {"Prereq(LocalPrivateKey)"}
            [] c = "B_NO_REMOTE_STATIC" -> {"Prereq(RemotePublicKey)"}
            [] c = "B_MODIFIER"         -> {"Pattern(UnsupportedModifier)"}
            [] c = "B_PSK_INDEX"        -> {"Pattern(InvalidPsk)"}
            [] c = "B_NO_rng"           -> {"Init(GetRngImpl)"}
            [] c = "B_NO_dh"            -> {"Init(GetDhImpl)"}
            [] c = "B_NO_cipher"        -> {"Init(GetCipherImpl)"}
            [] c = "B_NO_hash"          -> {"Init(GetHashImpl)"}
            [] c = "B_NO_kem"           -> {"Init(GetKemImpl)"} : c \in cz }

Scenario(p, role, hasS, hasRS, mods, lack, dh) ==
  LET psks == { n \in PskIdxOf(mods) : n <= 4 }
      pp == PPH(p, psks, PubLen(dh), FALSE, IsHfs(mods))
      nm == NameOf(p, mods, IF IsHfs(mods) THEN dh \o "+Kyber1024" ELSE dh, "ChaChaPoly", "SHA256")
      ppn == [pp EXCEPT !.initpad = Len(nm) <= 32]
      cfg == CfgB(role, hasS, hasRS, psks)
      cz == CausesB(p, role, hasS, hasRS, mods, lack)
      id == IF role = "i" THEN "I" ELSE "R"
  IN [family |-> "builder", name |-> nm, noreuse |-> FALSE,
      prm |-> [pp |-> ppn, role |-> role, hasS |-> hasS, hasRS |-> hasRS, mods |-> mods, lack |-> lack, dh |-> dh],
      steps |-> << Step("build", id, [role |-> role, pp |-> ppn, cfg |-> cfg, lack |-> lack],
                        IF cz = {} THEN [res |-> "ok", obs |-> HsObs(Initialize(id, role, ppn, cfg))]
                        ELSE [res |-> "err", causes |-> cz, kinds |-> KindsB(cz)]) >>]

(* ---- C10: keys of any length, set_psk at any position with any length --------------------- *)
(* the properties fix no outcome for keys of unusual length ("any": Ok or Err) - only that the call
   returns (C10): a panic or a hang is what no action explains *)
KeyLens == {0, 1, 31, 32, 33, 56, 57, 64, 65, 66, 100, 200}
KeyTerm(nm, len) == IF len = 0 THEN Empty ELSE <<"lit", nm, len>>
KeyLenScenario(role, which, len, dh) ==
  LET pl == PubLen(dh)
      cfg0 == CfgB(role, TRUE, TRUE, {})
      cfg == CASE which = "s"  -> [cfg0 EXCEPT !.s = KeyTerm("keyS", len)]
               [] which = "rs" -> [cfg0 EXCEPT !.rs = KeyTerm("keyRS", len)]
               [] which = "e"  -> [cfg0 EXCEPT !.fixed_e = KeyTerm("keyE", len)]
      lim == IF which = "rs" THEN pl ELSE 32
      nm == NameOf("XX", <<>>, dh, "ChaChaPoly", "SHA256")
      id == IF role = "i" THEN "I" ELSE "R"
  IN [family |-> "builder", name |-> nm, noreuse |-> FALSE,
      prm |-> [which |-> which, len |-> len, dh |-> dh, role |-> role],
      steps |-> << Step("build", id, [role |-> role, pp |-> PP("XX", {}, pl, Len(nm) <= 32), cfg |-> cfg, lack |-> "none"],
                        [res |-> "any", causes |-> IF len > lim THEN {"B_KEYLEN"} ELSE {}]) >>]

PskLocs == {0, 4, 9, 10, 11, 255, 256, 70000}
PskLens == {0, 1, 31, 32, 33, 64}
SetPskScenario(loc, len) ==
  LET ppn == PP("NN", {0}, 32, FALSE)
      cfg == CfgB("i", FALSE, FALSE, {})
      st == Initialize("I", "i", ppn, cfg)
      nm == NameOf("NN", <<"psk0">>, "25519", "ChaChaPoly", "SHA256")
  IN [family |-> "builder", name |-> nm, noreuse |-> FALSE, prm |-> [loc |-> loc, len |-> len],
      steps |-> << Step("build", "I", [role |-> "i", pp |-> ppn, cfg |-> cfg, lack |-> "none"],
                        [res |-> "ok", obs |-> HsObs(st)]),
                   Step("set_psk", "I", [loc |-> loc, key |-> KeyTerm("pskk", len)],
                        IF len = 32 /\ loc < 10 THEN [res |-> "ok", obs |-> HsObs(st)]
                        ELSE [res |-> "err", causes |-> {"P_LEN_OR_LOCATION"}, kinds |-> {"Input"}, obs |-> HsObs(st)]) >>]

(* ---- builder setters: a parameter may be set once; psk locations 0..9 ---------------------- *)
(* (documented: Init(ParameterOverwrite), Init(ValidatePskPosition)); the error arises at the setter *)
TwiceScenario(which) ==
  LET ppn == PP("XX", {}, 32, TRUE)
      cfg == CfgB("i", TRUE, TRUE, {})
      nm == NameOf("XX", <<>>, "25519", "ChaChaPoly", "SHA256") IN
  [family |-> "builder", name |-> nm, noreuse |-> FALSE, prm |-> [twice |-> which],
   steps |-> << Step("build", "I", [role |-> "i", pp |-> ppn, cfg |-> cfg, lack |-> "none", twice |-> which],
                     [res |-> "err", causes |-> {"B_OVERWRITE"}, kinds |-> {"Init(ParameterOverwrite)"}]) >>]
PskLocScenario(loc) ==
  LET ppn == PP("XX", {}, 32, TRUE)
      cfg == CfgB("i", TRUE, TRUE, {})
      nm == NameOf("XX", <<>>, "25519", "ChaChaPoly", "SHA256") IN
  [family |-> "builder", name |-> nm, noreuse |-> FALSE, prm |-> [pskloc |-> loc],
   steps |-> << Step("build", "I", [role |-> "i", pp |-> ppn, cfg |-> cfg, lack |-> "none", pskloc |-> loc],
                     IF loc < 10 THEN [res |-> "ok", obs |-> HsObs(Initialize("I", "i", ppn, cfg))]
                     ELSE [res |-> "err", causes |-> {"B_PSK_LOCATION"}, kinds |-> {"Init(ValidatePskPosition)"}]) >>]

Init == done = FALSE /\ ep = <<>> /\ hist = <<>> /\ aeadLog = {}
Next ==
  /\ ~done /\ done' = TRUE /\ UNCHANGED vars
  /\ \A p \in PatSetB : \A role \in {"i", "r"} : \A hasS \in BOOLEAN : \A hasRS \in BOOLEAN :
       \A mods \in (IF HfsB THEN ModListsH \cup {<<>>, <<"psk1">>} ELSE ModLists) : \A lack \in (IF HfsB THEN LacksH ELSE Lacks) :
         \A dh \in BuilderDhs :
           PrintT(<<"SCN", ToJson(Scenario(p, role, hasS, hasRS, mods, lack, dh))>>)
  /\ \A role \in {"i", "r"} : \A which \in {"s", "rs", "e"} : \A len \in KeyLens : \A dh \in {"25519", "P256"} :
       PrintT(<<"SCN", ToJson(KeyLenScenario(role, which, len, dh))>>)
  /\ \A loc \in PskLocs : \A len \in PskLens :
       PrintT(<<"SCN", ToJson(SetPskScenario(loc, len))>>)
  /\ \A w \in {"s", "rs", "psk", "prologue"} : PrintT(<<"SCN", ToJson(TwiceScenario(w))>>)
  /\ \A loc \in {5, 9, 10, 11, 200, 255} : PrintT(<<"SCN", ToJson(PskLocScenario(loc))>>)
Spec == Init /\ [][Next]_<<done, vars>>

(* the derived prerequisites are consistent with what an honest run needs: a role that never uses a
   static key of its own does not need one, and every "s"-involving DH has its operands *)
PrereqSane ==
  \A p \in PatternNames : \A role \in {"i", "r"} :
    LET peer == IF role = "i" THEN "r" ELSE "i"
        toks == AllTokens(p)
        usesOwnS == (role = "i" /\ ({"se", "ss"} \cap toks # {})) \/ (role = "r" /\ ({"es", "ss"} \cap toks # {})) IN
    /\ (usesOwnS => NeedsLocalStatic(p, role))
    /\ (NeedsRemoteStatic(p, role) => NeedsLocalStatic(p, peer))
=============================================================================
