---------------------------- MODULE MC_Fallback ----------------------------
(***************************************************************************)
(* C20, second half: a fallback resolver yields a primitive iff at least   *)
(* one of its members provides it, preferring the first member.            *)
(* The whole truth table (4 kinds x every choice x availability in the     *)
(* preferred / fallback member) is emitted; the harness builds marker      *)
(* resolvers and compares what FallbackResolver returns.                   *)
(***************************************************************************)
EXTENDS NoiseNames, TLC, Json

CONSTANT HfsF        \* the hfs build: the resolver interface has a fifth kind, the KEM
KindChoices(kind) == CASE kind = "rng" -> {"-"} [] kind = "dh" -> DhNames
                   [] kind = "cipher" -> CipherNames [] kind = "hash" -> HashNames [] kind = "kem" -> KemNames
Kinds == {"rng", "dh", "cipher", "hash"} \cup (IF HfsF THEN {"kem"} ELSE {})

Resolve(pHas, fHas) == IF pHas THEN "preferred" ELSE IF fHas THEN "fallback" ELSE "none"

VARIABLE done
Init == done = FALSE
Next ==
  /\ ~done /\ done' = TRUE
  /\ \A kind \in Kinds : \A c \in KindChoices(kind) :
       \A pHas \in BOOLEAN : \A fHas \in BOOLEAN :
         PrintT(<<"FBK", ToJson([kind |-> kind, choice |-> c, preferred_has |-> pHas, fallback_has |-> fHas,
                                 expect |-> Resolve(pHas, fHas)])>>)
(* the answer to a query does not depend on the queries made before on the same resolver object *)
HistoryRows ==
  \A kind \in {"dh", "cipher", "hash"} : \A c1 \in KindChoices(kind) : \A c2 \in KindChoices(kind) \ {c1} :
    \A p1 \in BOOLEAN : \A p2 \in BOOLEAN :
      PrintT(<<"FBK2", ToJson([kind |-> kind,
                              first |-> [choice |-> c1, preferred_has |-> p1, fallback_has |-> TRUE, expect |-> Resolve(p1, TRUE)],
                              second |-> [choice |-> c2, preferred_has |-> p2, fallback_has |-> ~p2, expect |-> Resolve(p2, ~p2)]])>>)
Spec == Init /\ [][Next /\ HistoryRows]_done
(* "iff at least one member provides it" *)
IffEither == \A p, f \in BOOLEAN : (Resolve(p, f) # "none") = (p \/ f)
=============================================================================
