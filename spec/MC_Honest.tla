----------------------------- MODULE MC_Honest -----------------------------
(***************************************************************************)
(* Honest sessions: both endpoints built consistently, every message       *)
(* delivered unmodified, conversion to stateful or stateless transport,    *)
(* and a fixed interleaving of transport messages in both directions.      *)
(* One behaviour per class (choice x public-key length x init class x      *)
(* payload-length profile x transport variant).                            *)
(*                                                                         *)
(* Checked: Completes, Agreement, Delivery (C02), LenExact/LenWithin (C14),*)
(* RemoteStaticCorrect (C17), NoNonceReuse (C06).                          *)
(* Emitted: one scenario (JSON line) per behaviour for the D1 replay.      *)
(***************************************************************************)
EXTENDS Snow, Json

CONSTANTS PatSet,      \* set of pattern names to explore
          PskMode,     \* "none" | "single" | "all"
          PubLens,     \* subset of {32, 65}
          InitPads,    \* subset of BOOLEAN
          Profiles,    \* subset of {"zero","small","tag","max"}
          Variants,    \* subset of {"tr","sl"}
          FixedEs,     \* subset of BOOLEAN: fixed ephemerals (fixed_ephemeral_key_for_testing_only) or drawn
          TrafficMode, \* "mixed" | "alternate" (the test-vector convention: senders keep alternating)
          Emit         \* BOOLEAN: print scenarios

VARIABLES pc, prm
mcvars == <<vars, pc, prm>>

PskSets(p) ==
  CASE PskMode = "none"   -> {{}}
    [] PskMode = "single" -> {{}} \cup { {n} : n \in 0..NumMsgs(p) }
    [] PskMode = "all"    -> SUBSET (0..NumMsgs(p))

sI == Atom("sI", 32)
sR == Atom("sR", 32)
PskAtom(n) == CASE n = 0 -> Atom("psk0", 32) [] n = 1 -> Atom("psk1", 32) [] n = 2 -> Atom("psk2", 32)
                [] n = 3 -> Atom("psk3", 32) [] n = 4 -> Atom("psk4", 32)
Prologue == Atom("prologue", 0)
PayId(k) == CASE k = 1 -> "p1" [] k = 2 -> "p2" [] k = 3 -> "p3" [] k = 4 -> "p4"
              [] k = 5 -> "t1" [] k = 6 -> "t2" [] k = 7 -> "t3" [] k = 8 -> "t4"
              [] k = 9 -> "t5" [] k = 10 -> "t6"

CfgFor(role, pp, fixed) ==
  [ s  |-> IF NeedsLocalStatic(pp.pat, role) THEN (IF role = "i" THEN sI ELSE sR) ELSE None,
    rs |-> IF NeedsRemoteStatic(pp.pat, role) THEN Pub(IF role = "i" THEN sR ELSE sI) ELSE None,
    psk |-> [n \in 0..4 |-> IF n \in pp.psks THEN PskAtom(n) ELSE None],
    prologue |-> Prologue,
    fixed_e |-> IF fixed THEN (IF role = "i" THEN Atom("eI", 32) ELSE Atom("eR", 32)) ELSE None ]

(* transport traffic: who sends the j-th transport message *)
TrafficFor(p) ==
  IF TrafficMode = "alternate"
  THEN [j \in 1..(6 - NumMsgs(p)) |->
          IF p \in OneWay \/ (NumMsgs(p) + j) % 2 = 1 THEN "I" ELSE "R"]
  ELSE IF p \in OneWay THEN <<"I", "I", "I">> ELSE <<"I", "R", "R", "I", "R", "I">>

BIGBUF == 70000

Init ==
  /\ \E p \in PatSet, pl \in PubLens, ip \in InitPads, prof \in Profiles, v \in Variants, fx \in FixedEs :
       \E ps \in PskSets(p) :
         prm = [pp |-> PP(p, ps, pl, ip), prof |-> prof, variant |-> v, fixed |-> fx]
  /\ ep = [id \in {"I", "R"} |-> Absent]
  /\ hist = <<>>
  /\ aeadLog = {}
  /\ pc = 0

N == NumMsgs(prm.pp.pat)
Writer(k) == IF k % 2 = 1 THEN "I" ELSE "R"
Reader(k) == IF k % 2 = 1 THEN "R" ELSE "I"
Other(id) == IF id = "I" THEN "R" ELSE "I"

(* payload length of handshake message k under the profile *)
PayLen(k, st) ==
  CASE prm.prof = "zero"  -> 0
    [] prm.prof = "small" -> 2 * k + 1
    [] prm.prof = "tag"   -> (CASE k = 1 -> 16 [] k = 2 -> 17 [] k = 3 -> 15 [] k = 4 -> 1)
    [] prm.prof = "max"   -> MAXMSG - Overhead(st)

TPayLen(j) ==
  CASE prm.prof = "zero"  -> 0
    [] prm.prof = "small" -> j
    [] prm.prof = "tag"   -> 15 + j
    [] prm.prof = "max"   -> IF j = 1 THEN MAXMSG - TAGLEN ELSE j

LastOut == hist[Len(hist)].exp.out

(* program: pc 0,1 builds; 2..2N+1 handshake; 2N+2, 2N+3 conversions; then traffic *)
Traffic == TrafficFor(prm.pp.pat)
TBase == 2 * N + 4
Done == pc = TBase + 2 * Len(Traffic)

(* number of earlier transport messages sent by the same side: its nonce *)
SentBefore(j) == Cardinality({ i \in 1..(j-1) : Traffic[i] = Traffic[j] })

Next ==
  /\ ~Done
  /\ pc' = pc + 1
  /\ UNCHANGED prm
  /\ CASE pc = 0 -> Build("I", "i", prm.pp, CfgFor("i", prm.pp, prm.fixed))
       [] pc = 1 -> Build("R", "r", prm.pp, CfgFor("r", prm.pp, prm.fixed))
       [] pc \in 2..(2*N+1) ->
            LET k == pc \div 2 IN
            IF pc % 2 = 0
            THEN HsWrite(Writer(k), Lit(PayId(k), PayLen(k, St(Writer(k)))), BIGBUF, FALSE)
            ELSE HsRead(Reader(k), LastOut, BIGBUF)
       [] pc = 2*N+2 -> Convert("I", prm.variant = "tr")
       [] pc = 2*N+3 -> Convert("R", prm.variant = "tr")
       [] OTHER ->
            LET j == (pc - TBase) \div 2 + 1
                snd == Traffic[j] IN
            IF (pc - TBase) % 2 = 0
            THEN IF prm.variant = "tr"
                 THEN TrWrite(snd, Lit(PayId(4 + j), TPayLen(j)), BIGBUF)
                 ELSE SlWrite(snd, NLo(SentBefore(j)), Lit(PayId(4 + j), TPayLen(j)), BIGBUF)
            ELSE IF prm.variant = "tr"
                 THEN TrRead(Other(snd), LastOut, BIGBUF)
                 ELSE SlRead(Other(snd), NLo(SentBefore(j)), LastOut, BIGBUF)

Spec == Init /\ [][Next]_mcvars

(* ---- properties -------------------------------------------------------- *)
AllOk == \A i \in 1..Len(hist) : hist[i].exp.res = "ok"

(* C02 Completes: finished exactly after N messages and not before *)
Completes ==
  \A id \in {"I", "R"} :
    Mode(id) = "hs" => (Finished(St(id)) <=> St(id).pos = N) /\ St(id).pos <= N

(* C02 Agreement: same hash, same transport keys *)
Agreement ==
  (Mode("I") = "hs" /\ Mode("R") = "hs" /\ Finished(St("I")) /\ Finished(St("R")))
    => /\ St("I").ss.h = St("R").ss.h
       /\ St("I").c1 = St("R").c1 /\ St("I").c2 = St("R").c2
       /\ St("I").c1.k # St("I").c2.k

(* C02 Delivery: every read returns the payload of the write just before it *)
Delivery ==
  \A i \in 2..Len(hist) :
    hist[i].op \in {"hs_read", "t_read", "s_read"} =>
      /\ hist[i].exp.res = "ok"
      /\ hist[i].exp.payload = hist[i-1].args.payload
      /\ hist[i].exp.len = TLen(hist[i-1].args.payload, prm.pp.publen)

(* C14 framing on every successful write *)
Framing ==
  \A i \in 1..Len(hist) :
    (hist[i].op \in {"hs_write", "t_write", "s_write"} /\ hist[i].exp.res = "ok") =>
      /\ hist[i].exp.len = SumLen(hist[i].exp.out, prm.pp.publen)
      /\ hist[i].exp.len <= MAXMSG
      /\ hist[i].exp.len <= hist[i].args.buf

(* C17: the reported remote static key is the peer's true key, as soon as conveyed *)
PeerStatic(id) == Pub(IF id = "I" THEN sR ELSE sI)
RemoteStaticCorrect ==
  \A id \in {"I", "R"} :
    Mode(id) \in {"hs", "tr", "sl"} =>
      LET o == ObsOf(ep[id]) role == IF id = "I" THEN "i" ELSE "r" IN
      /\ (o.rs # None => o.rs = PeerStatic(id))
      /\ (~LearnsRemoteStatic(prm.pp.pat, role) => o.rs = None)
      /\ ((Mode(id) # "hs" /\ LearnsRemoteStatic(prm.pp.pat, role)) => o.rs = PeerStatic(id))

Inv == AllOk /\ Completes /\ Agreement /\ Delivery /\ Framing /\ RemoteStaticCorrect /\ NoNonceReuse /\ ReservedUnused

(* ---- scenario emission -------------------------------------------------- *)
EmitInv ==
  (Done /\ Emit) =>
    PrintT(<<"SCN", ToJson([family |-> "honest", prm |-> prm, steps |-> hist])>>)

View == <<ep, pc, prm>>
=============================================================================
