--------------------------- MODULE MC_NameTable ---------------------------
(***************************************************************************)
(* Emits, for every supported protocol name (38 patterns x every valid     *)
(* psk set x DH x cipher x hash = 13 344 names), the class of symbolic     *)
(* transcript it belongs to: (pattern, psk set, public-key length, whether *)
(* the name is padded or hashed into h).  The decision "pad or hash" is    *)
(* taken HERE (Len(name) <= HASHLEN, Noise 5.2), not in the harness.       *)
(* Also checks that the grammar of NoiseNames accepts every one of them    *)
(* and recovers its components (ParseName o NameOf = id).                  *)
(***************************************************************************)
EXTENDS NoiseNames, TLC, Json

CONSTANT PatSetN       \* patterns to enumerate

VARIABLE done
Dhs     == {"25519", "P256"}

Row(p, ps, d, c, h) ==
  LET nm == NameOf(p, PskMods(ps), d, c, h) IN
  [name |-> nm, pat |-> p, psks |-> ps, dh |-> d, cipher |-> c, hash |-> h,
   publen |-> PubLen(d), initpad |-> Len(nm) <= HashLen(h), oneway |-> p \in OneWay,
   nmsgs |-> NumMsgs(p)]

RoundTrip(p, ps, d, c, h) ==
  LET r == ParseName(NameOf(p, PskMods(ps), d, c, h)) IN
  /\ r.ok /\ r.pat = p /\ r.dh = d /\ r.cipher = c /\ r.hash = h
  /\ { r.mods[i].n : i \in 1..Len(r.mods) } = ps
  /\ \A i \in 1..Len(r.mods) : r.mods[i].kind = "psk"

Init == done = FALSE
Next ==
  /\ ~done
  /\ done' = TRUE
  /\ \A p \in PatSetN : \A ps \in SUBSET (0..NumMsgs(p)) :
       \A d \in Dhs : \A c \in CipherNames : \A h \in HashNames :
         /\ Assert(RoundTrip(p, ps, d, c, h), <<"grammar does not round-trip", p, ps, d, c, h>>)
         /\ PrintT(<<"NAME", ToJson(Row(p, ps, d, c, h))>>)
Spec == Init /\ [][Next]_done
TableOk == TableValid
=============================================================================
