--------------------------- MODULE MC_NameTable ---------------------------
(***************************************************************************)
(* Emits, for every supported protocol name (38 patterns x every valid     *)
(* psk set x DH x cipher x hash = 13 344 names), the class of symbolic     *)
(* transcript it belongs to: (pattern, psk set, public-key length, whether *)
(* the name is padded or hashed into h).  The decision "pad or hash" is    *)
(* taken HERE (Len(name) <= HASHLEN, Noise 5.2), not in the harness.       *)
(* Also checks that the grammar of NoiseNames accepts every one of them    *)
(* and recovers its components (ParseName o NameOf = id).                  *)
(***************************************************************************)
EXTENDS NoiseNames, TLC, Json

CONSTANTS PatSetN,     \* patterns to enumerate
          HfsN         \* FALSE: the 13 344 names of the default build; TRUE: the hfs names (hfs build of the crate)

VARIABLE done
Dhs     == {"25519", "P256"}

Row(p, ps, d, c, h) ==
  LET nm == NameOf(p, PskMods(ps), d, c, h) IN
  [name |-> nm, pat |-> p, psks |-> ps, dh |-> d, cipher |-> c, hash |-> h,
   publen |-> PubLen(d), initpad |-> Len(nm) <= HashLen(h), oneway |-> p \in OneWay,
   nmsgs |-> NumMsgs(p), hfs |-> FALSE]

RoundTrip(p, ps, d, c, h) ==
  LET r == ParseName(NameOf(p, PskMods(ps), d, c, h)) IN
  /\ r.ok /\ r.pat = p /\ r.dh = d /\ r.cipher = c /\ r.hash = h
  /\ { r.mods[i].n : i \in 1..Len(r.mods) } = ps
  /\ \A i \in 1..Len(r.mods) : r.mods[i].kind = "psk"

(* hfs names: every interactive pattern, the hfs modifier before or after the psk modifiers, KEM Kyber1024 *)
HRow(p, ps, first, d, c, h) ==
  LET mods == IF first THEN <<"hfs">> \o PskMods(ps) ELSE PskMods(ps) \o <<"hfs">>
      nm == NameOf(p, mods, d \o "+Kyber1024", c, h) IN
  [name |-> nm, pat |-> p, psks |-> ps, dh |-> d, cipher |-> c, hash |-> h,
   publen |-> PubLen(d), initpad |-> Len(nm) <= HashLen(h), oneway |-> FALSE,
   nmsgs |-> NumMsgs(p), hfs |-> TRUE, variant |-> IF first \/ ps = {} THEN 0 ELSE 1]
HRoundTrip(row, p, ps, d, c, h) ==
  LET r == ParseNameH(row.name, TRUE) IN
  /\ r.ok /\ r.pat = p /\ r.dh = d /\ r.kem = "Kyber1024" /\ r.cipher = c /\ r.hash = h
  /\ { r.mods[i].n : i \in { j \in 1..Len(r.mods) : r.mods[j].kind = "psk" } } = ps
  /\ Cardinality({ j \in 1..Len(r.mods) : r.mods[j].kind = "hfs" }) = 1
  /\ ~ParseName(row.name).ok              \* the default build must reject it

Init == done = FALSE
Next ==
  /\ ~done
  /\ done' = TRUE
  /\ IF ~HfsN
     THEN \A p \in PatSetN : \A ps \in SUBSET (0..NumMsgs(p)) :
            \A d \in Dhs : \A c \in CipherNames : \A h \in HashNames :
              /\ Assert(RoundTrip(p, ps, d, c, h), <<"grammar does not round-trip", p, ps, d, c, h>>)
              /\ PrintT(<<"NAME", ToJson(Row(p, ps, d, c, h))>>)
     ELSE \A p \in { q \in PatSetN : HfsApplies(q) } : \A ps \in SUBSET (0..NumMsgs(p)) :
            \A first \in (IF ps = {} THEN {TRUE} ELSE BOOLEAN) :
              \A d \in Dhs : \A c \in CipherNames : \A h \in HashNames :
                LET row == HRow(p, ps, first, d, c, h) IN
                /\ Assert(HRoundTrip(row, p, ps, d, c, h), <<"hfs grammar does not round-trip", row.name>>)
                /\ PrintT(<<"NAME", ToJson(row)>>)
  \* one-way pattern + hfs: a well-formed NAME (it parses) for which no endpoint can be built (C12) - parse-only strings
  /\ IF HfsN
     THEN \A p \in PatSetN \cap OneWay : \A ps \in SUBSET (0..NumMsgs(p)) : \A first \in BOOLEAN :
            \A d \in DhNames : \A c \in CipherNames : \A h \in HashNames :
              LET mods == IF first THEN <<"hfs">> \o PskMods(ps) ELSE PskMods(ps) \o <<"hfs">>
                  nm == NameOf(p, mods, d \o "+Kyber1024", c, h) IN
              /\ Assert(ParseNameH(nm, TRUE).ok /\ "B_MODIFIER" \in NameBuildCauses(ParseNameH(nm, TRUE)), <<"one-way hfs name", nm>>)
              /\ PrintT(<<"STR", ToJson(nm)>>)
     ELSE TRUE
Spec == Init /\ [][Next]_done
TableOk == TableValid
=============================================================================
