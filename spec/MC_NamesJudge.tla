--------------------------- MODULE MC_NamesJudge ---------------------------
(***************************************************************************)
(* C13, direction implementation -> specification: the harness applies     *)
(* GENERIC string edits (it knows no grammar) to protocol names, parses    *)
(* each string with snow and records what happened; this module judges     *)
(* every (string, outcome) pair with the grammar of NoiseNames.tla.        *)
(* Input: NDJSON file named by environment variable NAMES_FILE, records    *)
(*   [s, ok, pat, mods (seq of [kind, n]), dh, cipher, hash, verbatim, err] *)
(***************************************************************************)
EXTENDS NoiseNames, TLC, Json, IOUtils

CONSTANT HfsBuild      \* the strings were parsed by the hfs build of the crate (another parsing function)
Recs == ndJsonDeserialize(IOEnv.NAMES_FILE)

VARIABLE i
Judge(r) ==
  LET e == ParseNameH(r.s, HfsBuild) IN
  IF r.err = "panic" THEN "panic"
  \* a name that is valid but for a non-canonical psk numeral (psk03) may also be refused - with a pattern error
  ELSE IF e.ok /\ e.lenient /\ ~r.ok THEN (IF SubSeq(r.err, 1, 8) = "Pattern(" THEN "ok" ELSE "not a pattern error")
  ELSE IF e.ok # r.ok THEN (IF e.ok THEN "rejected a valid name" ELSE "accepted an invalid name")
  ELSE IF ~r.ok THEN (IF SubSeq(r.err, 1, 8) = "Pattern(" THEN "ok" ELSE "not a pattern error")
  ELSE IF ~r.verbatim THEN "name not preserved verbatim"
  ELSE IF e.pat # r.pat \/ e.dh # r.dh \/ e.cipher # r.cipher \/ e.hash # r.hash THEN "wrong component"
  ELSE IF HfsBuild /\ e.kem # r.kem THEN "wrong kem component"
  ELSE IF Len(e.mods) # Len(r.mods) THEN "wrong modifier list"
  ELSE IF \E k \in 1..Len(e.mods) : e.mods[k].kind # r.mods[k].kind \/ e.mods[k].n # r.mods[k].n THEN "wrong modifier"
  ELSE "ok"

Init == i = 1
Next ==
  /\ i <= Len(Recs)
  /\ LET v == Judge(Recs[i]) IN
     IF v = "ok" THEN TRUE ELSE PrintT(<<"BAD", ToJson([idx |-> i, s |-> Recs[i].s, verdict |-> v, rec |-> Recs[i]])>>)
  /\ i' = i + 1
Spec == Init /\ [][Next]_i
Finished == i = Len(Recs) + 1 => PrintT(<<"JUDGED", Len(Recs), Cardinality({ k \in 1..Len(Recs) : Recs[k].ok })>>)
=============================================================================
