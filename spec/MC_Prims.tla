----------------------------- MODULE MC_Prims -----------------------------
(***************************************************************************)
(* C18 (the part a specification can decide): the STRUCTURE snow's own     *)
(* code adds around the raw primitives -                                   *)
(*   HMAC (RFC 2104) and the Noise HKDF (rev 34, 4.3), written here as     *)
(*   term rewriting over a raw hash function,                              *)
(*   the AEAD law and the nonce encodings (which nonce the cipher sees),   *)
(*   REKEY (4.2), DH commutativity and key-pair consistency.               *)
(* TLC checks the algebraic laws on the terms and emits one case per       *)
(* (operation, lengths, nonce) with the EXPANDED expected term; the        *)
(* harness calls the public trait methods of the objects every resolver    *)
(* returns and compares with the evaluator over the raw primitives.        *)
(* Bit-level correctness of SHA-2/BLAKE2/ChaCha20/Poly1305/AES/GHASH/      *)
(* X25519/P-256 inside the third-party crates is NOT decided here.         *)
(***************************************************************************)
EXTENDS NoiseObjects, TLC, Json

(* seed-derived extras chosen by the check per run: lengths in 0..65519 and 64-bit counters as 16-digit hex strings, so that  *)
(* a deviation confined to a length class or a counter range that the fixed grids below do not touch is still met over runs *)
CONSTANTS RandLens, RandNonces

Byte(n)        == <<"byte", n>>
Cat(seq)       == <<"cat", seq>>
XorPad(k, b)   == <<"xorpad", k, b>>        \* k zero-padded to BLOCKLEN, every byte xor b

(* RFC 2104 *)
Hmac(k, d)     == Hash(<<XorPad(k, 92), Hash(<<XorPad(k, 54), d>>)>>)      \* opad 0x5c, ipad 0x36
(* Noise 4.3 *)
HkdfTemp(ck, ikm) == Hmac(ck, ikm)
Hkdf1(ck, ikm) == Hmac(HkdfTemp(ck, ikm), Byte(1))
Hkdf2(ck, ikm) == Hmac(HkdfTemp(ck, ikm), Cat(<<Hkdf1(ck, ikm), Byte(2)>>))
Hkdf3(ck, ikm) == Hmac(HkdfTemp(ck, ikm), Cat(<<Hkdf2(ck, ikm), Byte(3)>>))
HkdfOut(ck, ikm, i) == CASE i = 1 -> Hkdf1(ck, ikm) [] i = 2 -> Hkdf2(ck, ikm) [] i = 3 -> Hkdf3(ck, ikm)

KeyLens  == {0, 1, 31, 32, 33, 63, 64, 65, 127, 128}
DataLens == {0, 1, 55, 56, 63, 64, 65, 111, 112, 127, 128, 129, 300}
IkmLens  == {0, 1, 32, 56, 65, 300}
AdLens   == {0, 1, 15, 16, 17, 63, 64, 65, 1000}
PtLens   == {0, 1, 15, 16, 17, 63, 64, 65, 1000, 65519}
(* every byte position of the 64-bit counter set, both ends of the range, a value with all bytes distinct *)
Nonces   == { NLo(0), NLo(1), NLo(255), NLo(256), <<"pow", 16, 0>>, <<"pow", 24, 0>>, <<"pow", 32, 0>>, <<"pow", 32, 1>>,
              <<"pow", 40, 0>>, <<"pow", 48, 0>>, <<"pow", 56, 0>>, <<"pow", 63, 0>>, NTop(1), NTop(0),
              <<"hex", "0102030405060708">>, <<"hex", "f1e2d3c4b5a69788">> }
K  == Atom("k1", 32)
K2 == Atom("k2", 32)

AeadCase(n, al, pl) ==
  LET ad == Lit("ad", al) pt == Lit("pt", pl) c == Aead(K, n, ad, pt) IN
  [kind |-> "aead", key |-> K, nonce |-> n, ad |-> ad, pt |-> pt, expect |-> c,
   \* what must be rejected: named alterations of (key, nonce, ad, ciphertext)
   otherkey |-> K2, othernonce |-> IF n = NLo(1) THEN NLo(0) ELSE NLo(1), otherad |-> Lit("ad2", al + 1)]

(* the AEAD law instantiated on these cases: only the exact (k, n, ad) opens c *)
AeadLawHolds ==
  \A n \in Nonces :
    LET c == Aead(K, n, Lit("ad", 3), Lit("pt", 5)) IN
    /\ AeadOpens(K, n, Lit("ad", 3), c)
    /\ ~AeadOpens(K2, n, Lit("ad", 3), c)
    /\ ~AeadOpens(K, IF n = NLo(1) THEN NLo(0) ELSE NLo(1), Lit("ad", 3), c)
    /\ ~AeadOpens(K, n, Lit("ad2", 4), c)
    /\ ~AeadOpens(K, n, Lit("ad", 3), Alt(c, "fliplast"))
    /\ ~AeadOpens(K, n, Lit("ad", 3), Cut(c, 20))
DhLawHolds ==
  /\ DH(Atom("a", 32), Pub(Atom("b", 32))) = DH(Atom("b", 32), Pub(Atom("a", 32)))
  /\ DH(Atom("a", 32), Pub(Atom("b", 32))) # DH(Atom("a", 32), Pub(Atom("c", 32)))

VARIABLE done
Init == done = FALSE
Emit(x) == PrintT(<<"PRIM", ToJson(x)>>)
Next ==
  /\ ~done /\ done' = TRUE
  /\ \A kl \in KeyLens : \A dl \in DataLens :
       Emit([kind |-> "hmac", key |-> Lit("hk", kl), data |-> Lit("hd", dl),
             expect |-> Hmac(Lit("hk", kl), Lit("hd", dl))])
  /\ \A cl \in {32, 64} : \A il \in IkmLens : \A outs \in 1..3 :
       Emit([kind |-> "hkdf", ck |-> Lit("ck", cl), ikm |-> Lit("ikm", il), outputs |-> outs,
             expect |-> [i \in 1..outs |-> HkdfOut(Lit("ck", cl), Lit("ikm", il), i)],
             \* the atomic kdf term used by the protocol specification must mean the same
             atomic |-> [i \in 1..outs |-> Kdf(Lit("ck", cl), Lit("ikm", il), i)]])
  /\ \A n \in Nonces : \A al \in {0, 17} : \A pl \in PtLens : Emit(AeadCase(n, al, pl))
  /\ \A al \in AdLens : Emit(AeadCase(NLo(5), al, 33))
  /\ \A h \in RandNonces : \A pl \in RandLens : Emit(AeadCase(<<"hex", h>>, 0, pl))
  /\ \A h \in RandNonces : \A al \in RandLens : Emit(AeadCase(<<"hex", h>>, al, 7))
  /\ \A dl \in RandLens : \A kl \in {32, 64} :
       Emit([kind |-> "hmac", key |-> Lit("hk", kl), data |-> Lit("hd", dl),
             expect |-> Hmac(Lit("hk", kl), Lit("hd", dl))])
  /\ Emit([kind |-> "rekey", key |-> K, expect |-> Rekey(K),
           probe |-> Aead(Rekey(K), NLo(7), Lit("ad", 3), Lit("pt", 20))])
  /\ \A nm \in {"a", "b", "c"} :
       Emit([kind |-> "dhpub", sk |-> Atom(nm, 32), expect |-> Pub(Atom(nm, 32))])
  /\ Emit([kind |-> "dh", sk |-> Atom("a", 32), pk |-> Pub(Atom("b", 32)), expect |-> DH(Atom("a", 32), Pub(Atom("b", 32))),
           mirror |-> [sk |-> Atom("b", 32), pk |-> Pub(Atom("a", 32))]])
  /\ \A j \in 1..12 :   \* arbitrary 32-byte strings as peer keys (X25519 must accept any; includes twist / low-order inputs by chance)
       Emit([kind |-> "dhraw", sk |-> Atom("a", 32), pkraw |-> Lit("rawpk" \o ToString(j), 32),
             expect |-> DH(Atom("a", 32), Lit("rawpk" \o ToString(j), 32))])
  /\ Emit([kind |-> "keygen", draws |-> 8])
Spec == Init /\ [][Next]_done
Laws == AeadLawHolds /\ DhLawHolds
=============================================================================
