----------------------------- MODULE MC_Session -----------------------------
(***************************************************************************)
(* One session between an initiator I and a responder R driven by a        *)
(* script: build both, exchange the handshake messages, read out the raw   *)
(* split, convert to (stateful | stateless) transport, exchange transport  *)
(* messages.  Around that happy path the configuration switches on:        *)
(*                                                                         *)
(*   FaultBudget > 0   FAILING calls injected before any handshake step    *)
(*                     (every cause of DESIGN Appendix A at every boundary *)
(*                     computed from the message layout), followed by the  *)
(*                     genuine call: C07, C06, C10, C14                    *)
(*   LatePsk           an endpoint is built without one of its PSKs and    *)
(*                     gets it by set_psk at any later time (C12, C06)     *)
(*   TamperBudget > 0  the adversary alters a handshake message in transit *)
(*                     (field junk / flips, truncation anywhere, extension,*)
(*                     substitution by an earlier message); both parties   *)
(*                     carry on as far as they can: C03                    *)
(*                                                                         *)
(* With all budgets 0 this is the honest session (C01, C02, C14, C17).     *)
(* Every behaviour that reaches the end of its script is emitted as one    *)
(* scenario for the D1 replay.                                             *)
(***************************************************************************)
EXTENDS Snow, NoiseAdversary, NoiseNamesLite, Json

CONSTANTS PatSet,       \* set of pattern names to explore
          PskMode,      \* "none" | "single" | "all" | "only" (only choices WITH a psk)
          PubLens,      \* subset of {32, 65}
          InitPads,     \* subset of BOOLEAN
          Profiles,     \* subset of {"zero","small","tag","mid","max"}
          BufModes,     \* subset of {"big","exact"}: caller buffers far larger than needed / exactly as large as needed
          Variants,     \* subset of {"tr","sl"}
          FixedEs,      \* subset of BOOLEAN
          TrafficMode,  \* "mixed" | "alternate" | "short"
          FaultBudget,  \* number of failing calls injected per behaviour
          FaultKinds,   \* subset of the fault kind names below
          LatePsk,      \* BOOLEAN: also explore endpoints built without one PSK
          OverwritePsk, \* BOOLEAN: also explore set_psk on a slot that is already filled (C08, C12)
          TamperBudget, \* number of in-transit alterations per behaviour
          Mismatches,   \* subset of {"none","prologue","psk","psk_max","name","rs_i","rs_r","rs_i_bit","rs_r_bit"}: one context item differs (C08)
          ExtraRs,      \* subset of BOOLEAN: also hand the peer's static key to a party the pattern only TRANSMITS it to (C17)
          ExtraRsOther, \* BOOLEAN: with ExtraRs, the key handed over is NOT the peer's (the transmitted key must win)
          ExtraPsks,    \* subset of BOOLEAN: also supply keys in psk slots the pattern does not use (must change nothing: C12)
          EarlySplit,   \* BOOLEAN: also call dangerously_get_raw_split() once at any earlier point of the handshake (a pure query: the
                        \* rest of the session must be byte-identical to a session without it)
          Hfs,          \* BOOLEAN: the name carries the hfs modifier and a KEM (interactive patterns; hfs build of the crate)
          OddNames,     \* BOOLEAN: name the protocol with a non-canonical spelling of its psk numerals (psk03 for psk3)
          Emit          \* BOOLEAN: print scenarios

VARIABLES pc,      \* script position
          prm,     \* the class explored in this behaviour
          wire,    \* the handshake/transport message last written successfully (what the peer should read)
          sent,    \* all genuine handshake messages so far (for stale / substituted deliveries)
          budget,  \* [f |-> faults left, t |-> tamperings left]
          status   \* "run" | "stuck" (a genuine step failed: the session cannot proceed) | "tampered"
mcvars == <<vars, pc, prm, wire, sent, budget, status>>

PskSets(p) ==
  CASE PskMode = "none"   -> {{}}
    [] PskMode = "single" -> {{}} \cup { {n} : n \in 0..NumMsgs(p) }
    [] PskMode = "only"   -> { {n} : n \in 0..NumMsgs(p) }
    [] PskMode = "all"    -> SUBSET (0..NumMsgs(p))

sI == Atom("sI", 32)
sR == Atom("sR", 32)
PskAtom(n) == CASE n = 0 -> Atom("psk0", 32) [] n = 1 -> Atom("psk1", 32) [] n = 2 -> Atom("psk2", 32)
                [] n = 3 -> Atom("psk3", 32) [] n = 4 -> Atom("psk4", 32)
Prologue == Atom("prologue", 0)
PayId(k) == CASE k = 1 -> "p1" [] k = 2 -> "p2" [] k = 3 -> "p3" [] k = 4 -> "p4"
              [] k = 5 -> "t1" [] k = 6 -> "t2" [] k = 7 -> "t3" [] k = 8 -> "t4"
              [] k = 9 -> "t5" [] k = 10 -> "t6"

(* late = <<id, n>>: endpoint id is built WITHOUT psk n, or <<"-", 0>> *)
(* mm: the ONE context item on which the two parties disagree (C08), or "none":
     prologue  - the responder has another prologue
     psk / psk_max - the responder holds another key for the lowest / highest psk index
     rs_i/rs_r - the initiator / responder was given another (valid) static key of the peer
     rs_i_bit / rs_r_bit - ... the peer's key with its top bit flipped *)
sX == Atom("sX", 32)
MinOf(S) == CHOOSE x \in S : \A y \in S : x <= y
MaxOfS(S) == CHOOSE x \in S : \A y \in S : y <= x
(* ow = <<id, n, "fix">>  : id is built with a WRONG key in slot n and later overwrites it with the right one
        <<id, n, "break">>: id is built right and later overwrites slot n with a wrong key               *)
NoOw == <<"-", 0, "-">>
CfgFor0(id, role, pp, fixed, late, mm, ow) ==
  [ s  |-> IF NeedsLocalStatic(pp.pat, role) THEN (IF role = "i" THEN sI ELSE sR) ELSE None,
    rs |-> IF NeedsRemoteStatic(pp.pat, role)
           THEN (IF (mm = "rs_i" /\ role = "i") \/ (mm = "rs_r" /\ role = "r") THEN Pub(sX)
                 ELSE IF (mm = "rs_i_bit" /\ role = "i") \/ (mm = "rs_r_bit" /\ role = "r")
                      THEN Alt(Pub(IF role = "i" THEN sR ELSE sI), "fliplast")
                 \* P-256: the INVERSE point -P, another valid key with the same ECDH output as P: only the hash of the
                 \* full encoding binds it
                 ELSE IF (mm = "rs_i_neg" /\ role = "i") \/ (mm = "rs_r_neg" /\ role = "r")
                      THEN Alt(Pub(IF role = "i" THEN sR ELSE sI), "negate")
                 ELSE Pub(IF role = "i" THEN sR ELSE sI))
           ELSE None,
    psk |-> [n \in 0..4 |-> IF n \in pp.psks /\ late # <<id, n>>
                             THEN (IF (mm = "psk" /\ role = "r" /\ n = MinOf(pp.psks))
                                      \/ (mm = "psk_max" /\ role = "r" /\ n = MaxOfS(pp.psks))
                                      \/ ow = <<id, n, "fix">>
                                   THEN Atom("pskX", 32) ELSE PskAtom(n))
                             ELSE None],
    prologue |-> IF mm = "prologue" /\ role = "r" THEN Atom("prologue2", 0)
                 ELSE IF mm = "prologue_z" /\ role = "r" THEN Atom("prologue3", 0)     \* the same bytes plus one trailing zero byte
                 ELSE Prologue,
    fixed_e |-> IF fixed THEN (IF role = "i" THEN Atom("eI", 32) ELSE Atom("eR", 32)) ELSE None ]

(* transport traffic: who sends the j-th transport message *)
TrafficFor(p) ==
  IF TrafficMode = "alternate"
  THEN [j \in 1..(6 - NumMsgs(p)) |->
          IF p \in OneWay \/ (NumMsgs(p) + j) % 2 = 1 THEN "I" ELSE "R"]
  ELSE IF TrafficMode = "short"
  THEN (IF p \in OneWay THEN <<"I">> ELSE <<"I", "R">>)
  ELSE IF p \in OneWay THEN <<"I", "I", "I">> ELSE <<"I", "R", "R", "I", "R", "I">>

BIGBUF == 70000

(* with `extra`, every slot the pattern does not use is filled with an unrelated key *)
CfgFor(id, role, pp, fixed, late, mm, ow, extra, xrs) ==
  LET c0 == CfgFor0(id, role, pp, fixed, late, mm, ow)
      c == IF xrs /\ c0.rs = None /\ LearnsRemoteStatic(pp.pat, role)
           THEN [c0 EXCEPT !.rs = Pub(IF ExtraRsOther THEN sX ELSE IF role = "i" THEN sR ELSE sI)] ELSE c0 IN
  IF extra THEN [c EXCEPT !.psk = [n \in 0..4 |-> IF n \in pp.psks THEN c.psk[n] ELSE Atom("pskX", 32)]] ELSE c

Ows(p, ps) == IF OverwritePsk THEN {NoOw} \cup { <<id, n, k>> : id \in {"I", "R"}, n \in ps, k \in {"fix", "break"} }
              ELSE {NoOw}
Lates(p, ps) == IF LatePsk THEN {<<"-", 0>>} \cup { <<id, n>> : id \in {"I", "R"}, n \in ps } ELSE {<<"-", 0>>}

Init ==
  /\ \E p \in PatSet, pl \in PubLens, ip \in InitPads, prof \in Profiles, v \in Variants, fx \in FixedEs, bm \in BufModes :
       \E ps \in PskSets(p) : \E late \in Lates(p, ps) : \E mm \in Mismatches : \E ow \in Ows(p, ps) : \E ex \in ExtraPsks : \E xr \in ExtraRs :
         /\ (Hfs => HfsApplies(p))
         /\ (ow # NoOw => late = <<"-", 0>> /\ mm = "none")
         /\ (mm = "psk" => ps # {})
         /\ (mm = "name" => ps # {} /\ pl = 32 /\ ip)     \* the two parties spell the SAME choice differently (psk3 / psk03)
         /\ (mm = "psk_max" => Cardinality(ps) >= 2)
         /\ (mm \in {"rs_i", "rs_i_bit", "rs_i_neg"} => NeedsRemoteStatic(p, "i"))
         /\ (mm \in {"rs_r", "rs_r_bit", "rs_r_neg"} => NeedsRemoteStatic(p, "r"))
         /\ (mm \in {"rs_i_neg", "rs_r_neg"} => pl = 65)
         /\ prm = [pp |-> PPH(p, ps, pl, ip, Hfs), prof |-> prof, variant |-> v, fixed |-> fx, late |-> late, bufs |-> bm,
                   mm |-> mm, ow |-> ow, extra |-> ex, xrs |-> xr]
  /\ ep = [id \in {"I", "R"} |-> Absent]
  /\ hist = <<>>
  /\ aeadLog = {}
  /\ pc = 0
  /\ wire = <<>>
  /\ sent = <<>>
  /\ budget = [f |-> FaultBudget, t |-> TamperBudget, s |-> IF EarlySplit THEN 1 ELSE 0]
  /\ status = "run"

N == NumMsgs(prm.pp.pat)
Writer(k) == IF k % 2 = 1 THEN "I" ELSE "R"
Reader(k) == IF k % 2 = 1 THEN "R" ELSE "I"
Other(id) == IF id = "I" THEN "R" ELSE "I"
PL == prm.pp.publen

(* payload length of handshake message k under the profile *)
PayLen(k, st) ==
  CASE prm.prof = "zero"  -> 0
    [] prm.prof = "small" -> 2 * k + 1
    [] prm.prof = "tag"   -> (CASE k = 1 -> 16 [] k = 2 -> 17 [] k = 3 -> 15 [] k = 4 -> 1)
    [] prm.prof = "mid"   -> 90 + k
    [] prm.prof = "kilo"  -> 1100 + k
    [] prm.prof = "max"   -> MAXMSG - Overhead(st)

TPayLen(j) ==
  CASE prm.prof = "zero"  -> 0
    [] prm.prof = "small" -> j
    [] prm.prof = "tag"   -> 15 + j
    [] prm.prof = "mid"   -> 100 + j
    [] prm.prof = "kilo"  -> 2000 + j
    [] prm.prof = "max"   -> IF j = 1 THEN MAXMSG - TAGLEN ELSE j

(* program: pc 0,1 builds; 2..2N+1 handshake; 2N+2,2N+3 raw split; 2N+4,2N+5 conversions; traffic *)
Traffic == TrafficFor(prm.pp.pat)
TBase == 2 * N + 6
EndPc == TBase + 2 * Len(Traffic)
Done == pc = EndPc \/ status = "stuck"
InHandshake == pc \in 2..(2*N+1)
HsMsg == pc \div 2                 \* index of the handshake message being written/read at pc
IsWritePc == pc % 2 = 0

(* number of earlier transport messages sent by the same side: its nonce *)
SentBefore(j) == Cardinality({ i \in 1..(j-1) : Traffic[i] = Traffic[j] })

LastRes == hist'[Len(hist')].exp.res

(* the missing-PSK failure of a genuine step is explored once, not for ever: after it only
   set_psk (or an injected fault) can follow *)
JustFailedNoPsk(id) ==
  /\ hist # <<>>
  /\ LET l == hist[Len(hist)] IN
     /\ l.ep = id /\ l.exp.res = "err" /\ "cause" \in DOMAIN l.exp
     /\ l.exp.cause \in {"W_NO_PSK", "R_NO_PSK"}

(* caller buffers of the genuine calls: far larger than needed, or exactly as large as needed
   (a write before any key is set needs TAGLEN spare bytes: the named SlackInput deviation) *)
WBuf(st, payload) ==
  IF prm.bufs = "big" THEN BIGBUF
  ELSE LET w == WriteMessage(st, payload, BIGBUF) IN IF w.enc THEN w.len ELSE w.len + TAGLEN
RBuf(st, msg) ==
  IF prm.bufs = "big" THEN BIGBUF ELSE ReadMessage(st, msg, BIGBUF).plen
TWBuf(payload) == IF prm.bufs = "big" THEN BIGBUF ELSE TLen(payload, PL) + TAGLEN
TRBuf(msg) == IF prm.bufs = "big" THEN BIGBUF
              ELSE LET l == SumLen(msg, PL) IN IF l >= TAGLEN THEN l - TAGLEN ELSE 0

(* ---- the genuine step of the script ------------------------------------ *)
(* A genuine step that fails (possible only with a missing PSK, after a    *)
(* tampering, or with FullRollback = FALSE) does not advance the script.   *)
GenuinePayload(k) == Lit(PayId(k), PayLen(k, St(Writer(k))))

Genuine ==
  /\ ~Done
  /\ UNCHANGED <<prm, budget>>
  /\ CASE pc = 0 -> /\ Build("I", "i", prm.pp, CfgFor("I", "i", prm.pp, prm.fixed, prm.late, prm.mm, prm.ow, prm.extra, prm.xrs))
                    /\ pc' = pc + 1 /\ UNCHANGED <<wire, sent, status>>
       [] pc = 1 -> /\ Build("R", "r", IF prm.mm = "name" THEN prm.pp @@ [altname |-> TRUE] ELSE prm.pp, CfgFor("R", "r", prm.pp, prm.fixed, prm.late, prm.mm, prm.ow, prm.extra, prm.xrs))
                    /\ pc' = pc + 1 /\ UNCHANGED <<wire, sent, status>>
       [] InHandshake ->
            LET k == HsMsg IN
            IF IsWritePc
            THEN /\ ~JustFailedNoPsk(Writer(k))
                 /\ HsWrite(Writer(k), GenuinePayload(k), WBuf(St(Writer(k)), GenuinePayload(k)), FALSE)
                 /\ IF LastRes = "ok"
                    THEN /\ pc' = pc + 1
                         /\ wire' = hist'[Len(hist')].exp.out
                         /\ sent' = Append(sent, hist'[Len(hist')].exp.out)
                         /\ UNCHANGED status
                    ELSE /\ UNCHANGED <<pc, wire, sent>>
                         /\ status' = IF hist'[Len(hist')].exp.cause = "W_NO_PSK" THEN status ELSE "stuck"
            ELSE /\ ~JustFailedNoPsk(Reader(k))
                 /\ HsRead(Reader(k), wire, RBuf(St(Reader(k)), wire))
                 /\ UNCHANGED <<wire, sent>>
                 /\ IF LastRes = "ok"
                    THEN pc' = pc + 1 /\ UNCHANGED status
                    ELSE /\ UNCHANGED pc
                         /\ status' = IF hist'[Len(hist')].exp.cause = "R_NO_PSK" THEN status ELSE "stuck"
       [] pc = 2*N+2 -> RawSplit("I") /\ pc' = pc + 1 /\ UNCHANGED <<wire, sent, status>>
       [] pc = 2*N+3 -> RawSplit("R") /\ pc' = pc + 1 /\ UNCHANGED <<wire, sent, status>>
       [] pc = 2*N+4 -> Convert("I", prm.variant = "tr") /\ pc' = pc + 1 /\ UNCHANGED <<wire, sent, status>>
       [] pc = 2*N+5 -> Convert("R", prm.variant = "tr") /\ pc' = pc + 1 /\ UNCHANGED <<wire, sent, status>>
       [] OTHER ->
            LET j == (pc - TBase) \div 2 + 1
                snd == Traffic[j] IN
            /\ UNCHANGED sent
            /\ IF (pc - TBase) % 2 = 0
               THEN /\ IF prm.variant = "tr"
                       THEN TrWrite(snd, Lit(PayId(4 + j), TPayLen(j)), TWBuf(Lit(PayId(4 + j), TPayLen(j))))
                       ELSE SlWrite(snd, NLo(SentBefore(j)), Lit(PayId(4 + j), TPayLen(j)), TWBuf(Lit(PayId(4 + j), TPayLen(j))))
                    /\ IF LastRes = "ok"
                       THEN pc' = pc + 1 /\ wire' = hist'[Len(hist')].exp.out /\ UNCHANGED status
                       ELSE UNCHANGED <<pc, wire>> /\ status' = "stuck"
               ELSE /\ IF prm.variant = "tr"
                       THEN TrRead(Other(snd), wire, TRBuf(wire))
                       ELSE SlRead(Other(snd), NLo(SentBefore(j)), wire, TRBuf(wire))
                    /\ UNCHANGED wire
                    /\ IF LastRes = "ok"
                       THEN pc' = pc + 1 /\ UNCHANGED status
                       ELSE UNCHANGED pc /\ status' = "stuck"

(* a genuine failing step with a missing PSK must not repeat for ever *)
MissingPskNow(id) ==
  Mode(id) = "hs" /\ prm.late[1] = id /\ St(id).psk[prm.late[2]] = None

(* ---- set_psk at any time ------------------------------------------------ *)
FixPsk ==
  /\ ~Done
  /\ \E id \in {"I", "R"} :
       /\ MissingPskNow(id)
       /\ SetPsk(id, prm.late[2], PskAtom(prm.late[2]))
  /\ UNCHANGED <<pc, prm, wire, sent, budget, status>>

(* a set_psk call refused for the length of its key (Input) leaves the slot as it was: still empty (once per behaviour) *)
BadSetDone == \E i \in 1..Len(hist) : hist[i].op = "set_psk" /\ hist[i].exp.res = "err"
BadFixPsk ==
  /\ ~Done /\ ~BadSetDone
  /\ \E id \in {"I", "R"} :
       /\ MissingPskNow(id)
       /\ Log(Step("set_psk", id, [loc |-> prm.late[2], key |-> <<"lit", "shortkey", 31>>],
                   [res |-> "err", causes |-> {"P_LEN"}, kinds |-> {"Input"}, obs |-> HsObs(St(id))]))
  /\ UNCHANGED <<ep, aeadLog, pc, prm, wire, sent, budget, status>>

(* set_psk on a filled slot, at any time (once) *)
OwTarget == IF prm.ow[3] = "fix" THEN PskAtom(prm.ow[2]) ELSE Atom("pskX", 32)
OwDone == \E i \in 1..Len(hist) : hist[i].op = "set_psk"
Overwrite ==
  /\ ~Done /\ prm.ow # NoOw /\ ~OwDone /\ pc >= 2
  /\ Mode(prm.ow[1]) = "hs"
  /\ SetPsk(prm.ow[1], prm.ow[2], OwTarget)
  /\ UNCHANGED <<pc, prm, wire, sent, budget, status>>

(* ---- a query in the middle of the handshake ----------------------------- *)
EarlyRawSplit ==
  /\ ~Done /\ budget.s > 0 /\ InHandshake
  /\ \E id \in {"I", "R"} : RawSplit(id)
  /\ budget' = [budget EXCEPT !.s = 0]
  /\ UNCHANGED <<pc, prm, wire, sent, status>>

(* ---- failing calls ------------------------------------------------------ *)
(* Each disjunct performs a call that the MODEL says fails (guard: the     *)
(* result is an error); the script position does not move.                 *)
ErrStep == hist'[Len(hist')].exp.res = "err"
KeepScript == UNCHANGED <<pc, prm, wire, sent, status>> /\ budget' = [budget EXCEPT !.f = @ - 1]

(* buffer lengths one byte (and one tag) short of every field end of the message about to be written *)
BadBufs(st, payload) ==
  LET w == WriteMessage(st, payload, BIGBUF)
      ends == Ends(w.fields, st.pp.publen)
      S == {0} \cup { ends[j] - 1 : j \in 1..Len(ends) } \cup { ends[j] - TAGLEN - 1 : j \in 1..Len(ends) }
              \cup { ends[j] - TAGLEN : j \in 1..Len(ends) }
  IN { b \in S : b >= 0 }

FaultWrite ==            \* at a write step: the writer's call fails
  /\ IsWritePc
  /\ LET k == HsMsg id == Writer(k) IN
     \/ /\ "wbuf" \in FaultKinds
        /\ \E b \in BadBufs(St(id), GenuinePayload(k)) : HsWrite(id, GenuinePayload(k), b, TRUE)
     \/ /\ "wmax" \in FaultKinds
        /\ HsWrite(id, Lit("big", MAXMSG - Overhead(St(id)) + 1), BIGBUF, TRUE)
     \/ /\ "turn" \in FaultKinds        \* the other party writes out of turn
        /\ HsWrite(Other(id), Lit("oot", 3), BIGBUF, TRUE)
     \/ /\ "turn" \in FaultKinds /\ sent # <<>>    \* the writer reads instead (a stale message)
        /\ HsRead(id, sent[Len(sent)], BIGBUF)

BadMsgs(msg) ==
     (IF "ralt" \in FaultKinds THEN { AltField(msg, j, kd) : j \in 1..Len(msg), kd \in AltKinds } ELSE {})
  \cup (IF "rtrunc" \in FaultKinds THEN { TruncAt(msg, l, PL) : l \in TruncLens(msg, PL) } ELSE {})
  \cup (IF "rext" \in FaultKinds THEN { Extend(msg, 1), Extend(msg, TAGLEN), Extend(msg, MAXMSG),
                                          Extend(msg, MAXMSG + 1 - SumLen(msg, PL)) }     \* exactly one byte over the limit
        ELSE {})
  \cup (IF "rstale" \in FaultKinds THEN { sent[i] : i \in 1..(Len(sent) - 1) } ELSE {})

(* payload-buffer sizes offered with a bad message: far larger; with "rleak" also exactly the genuine
   payload's length and a little more (C19: every buffer size) *)
LeakBufs(id) ==
  IF "rleak" \in FaultKinds
  THEN LET r == ReadMessage(St(id), wire, BIGBUF) IN
       IF r.cause = "none" THEN {BIGBUF, r.plen, r.plen + 8} ELSE {BIGBUF}
  ELSE {BIGBUF}

FaultRead ==             \* at a read step: the reader's call fails
  /\ ~IsWritePc
  /\ LET k == HsMsg id == Reader(k) IN
     \/ \E m \in BadMsgs(wire) : \E ol \in LeakBufs(id) : HsRead(id, m, ol)
     \/ /\ "routbuf" \in FaultKinds
        /\ LET r == ReadMessage(St(id), wire, BIGBUF) IN
           /\ r.cause = "none" /\ r.plen > 0
           /\ \E ol \in {0, r.plen - 1} : HsRead(id, wire, ol)
     \/ /\ "turn" \in FaultKinds        \* the reader writes out of turn
        /\ HsWrite(id, Lit("oot", 3), BIGBUF, TRUE)
     \/ /\ "turn" \in FaultKinds        \* the writer writes again
        /\ HsWrite(Other(id), Lit("oot", 3), BIGBUF, TRUE)

Fault ==
  /\ ~Done /\ budget.f > 0 /\ InHandshake /\ status = "run"
  /\ (FaultWrite \/ FaultRead)
  /\ ErrStep
  /\ KeepScript

(* ---- in-transit alteration (C03) ---------------------------------------- *)
(* The adversary replaces the message on the wire; the script goes on with  *)
(* the altered message.  Whatever happens next is what the model predicts.  *)
TamperMsgs(msg) ==
     { AltField(msg, j, kd) : j \in 1..Len(msg), kd \in AltKinds }
  \cup { TruncAt(msg, l, PL) : l \in TruncLens(msg, PL) }
  \cup { Extend(msg, 1), Extend(msg, TAGLEN) }
  \cup { sent[i] : i \in 1..(Len(sent) - 1) }

Tamper ==
  /\ ~Done /\ budget.t > 0 /\ InHandshake /\ ~IsWritePc /\ status = "run"
  /\ \E m \in TamperMsgs(wire) :
       /\ m # wire
       /\ wire' = m
  /\ budget' = [budget EXCEPT !.t = @ - 1]
  /\ status' = "tampered"
  /\ Log(Step("adv", "-", [msg |-> wire', orig |-> wire], [res |-> "ok"]))
  /\ UNCHANGED <<ep, aeadLog, pc, prm, sent>>

Next == (status = "run" /\ Genuine) \/ FixPsk \/ BadFixPsk \/ Overwrite \/ Fault \/ Tamper \/ EarlyRawSplit
        \/ (status = "tampered" /\ ~Done /\ Genuine)

Spec == Init /\ [][Next]_mcvars

(* ---- properties --------------------------------------------------------- *)
Honest == budget.t = TamperBudget /\ prm.mm = "none" /\ prm.ow = NoOw    \* nobody tampered, both sides agree on the context
Steps(ops) == { i \in 1..Len(hist) : hist[i].op \in ops }
IsErr(i) == hist[i].exp.res = "err"

(* the honest/faulty session never gets stuck unless someone tampered: every genuine step succeeds
   (C02 Completes+Delivery; with faults: C07 "the same step repeated with valid arguments succeeds") *)
NeverStuck == Honest => status # "stuck"

Completes ==
  \A id \in {"I", "R"} :
    Mode(id) = "hs" => (Finished(St(id)) <=> St(id).pos = N) /\ St(id).pos <= N

Agreement ==
  (Honest /\ Mode("I") = "hs" /\ Mode("R") = "hs" /\ Finished(St("I")) /\ Finished(St("R")))
    => /\ St("I").ss.h = St("R").ss.h
       /\ St("I").c1 = St("R").c1 /\ St("I").c2 = St("R").c2
       /\ St("I").c1.k # St("I").c2.k

(* C02 Delivery: a successful read returns the payload of the genuine write it reads *)
Delivery ==
  Honest =>
  \A i \in 2..Len(hist) :
    (hist[i].op \in {"hs_read", "t_read", "s_read"} /\ ~IsErr(i)) =>
      \E j \in 1..(i-1) :
         /\ hist[j].op \in {"hs_write", "t_write", "s_write"} /\ ~IsErr(j)
         /\ hist[j].exp.out = hist[i].args.msg
         /\ hist[i].exp.payload = hist[j].args.payload
         /\ hist[i].exp.len = TLen(hist[j].args.payload, PL)

(* C14 framing on every successful write *)
Framing ==
  \A i \in 1..Len(hist) :
    (hist[i].op \in {"hs_write", "t_write", "s_write"} /\ ~IsErr(i)) =>
      /\ hist[i].exp.len = SumLen(hist[i].exp.out, PL)
      /\ hist[i].exp.len <= MAXMSG
      /\ hist[i].exp.len <= hist[i].args.buf

(* C07 at model level: a failing call changes nothing the API exposes *)
PrevObs(i, id) ==
  LET S == { j \in 1..(i-1) : hist[j].ep = id /\ "obs" \in DOMAIN hist[j].exp } IN
  IF S = {} THEN None ELSE hist[CHOOSE j \in S : \A l \in S : l <= j].exp.obs
ErrIsNoOp ==
  \A i \in 1..Len(hist) :
    (IsErr(i) /\ hist[i].op \in {"hs_write", "hs_read", "t_write", "t_read"}) =>
       hist[i].exp.obs = PrevObs(i, hist[i].ep)

(* C17 *)
PeerStatic(id) == Pub(IF id = "I" THEN sR ELSE sI)
RemoteStaticCorrect ==
  Honest =>
  \A id \in {"I", "R"} :
    Mode(id) \in {"hs", "tr", "sl"} =>
      LET o == ObsOf(ep[id]) role == IF id = "I" THEN "i" ELSE "r" IN
      \* (with ExtraRsOther the application handed over ANOTHER key: that one is reported until the peer's own key arrives)
      /\ (o.rs # None => (o.rs = PeerStatic(id) \/ (ExtraRsOther /\ prm.xrs /\ Mode(id) = "hs" /\ o.rs = Pub(sX))))
      /\ (~LearnsRemoteStatic(prm.pp.pat, role) => o.rs = None)
      /\ ((Mode(id) # "hs" /\ LearnsRemoteStatic(prm.pp.pat, role)) => o.rs = PeerStatic(id))

(* the raw split both sides report agrees (C01/C02) *)
RawSplitAgrees ==
  (Honest /\ ~EarlySplit) =>
  \A i, j \in Steps({"raw_split"}) : hist[i].exp.k1 = hist[j].exp.k1 /\ hist[i].exp.k2 = hist[j].exp.k2

(* C03 at model level: after an alteration the two parties never both finish without an error *)
ErrAfterTamper ==
  \E a \in Steps({"adv"}) : \E i \in (a+1)..Len(hist) : IsErr(i)
BothFinished ==
  \A id \in {"I", "R"} : \/ Mode(id) \in {"tr", "sl"}
                         \/ (Mode(id) = "hs" /\ Finished(St(id)))
NoSilentCompletion == (Steps({"adv"}) # {} /\ BothFinished) => ErrAfterTamper

(* C03: an alteration that touches an encrypted field is rejected by the receiving read itself *)
TouchesAead(old, new) ==
  \E j \in 1..Len(old) : old[j][1] = "aead" /\ (j > Len(new) \/ new[j] # old[j])
EncryptedFieldRejectedAtOnce ==
  \A a \in Steps({"adv"}) :
    TouchesAead(hist[a].args.orig, hist[a].args.msg) =>
      \A i \in (a+1)..Len(hist) : (hist[i].op = "hs_read" /\ hist[i].args.msg = hist[a].args.msg) => IsErr(i)

(* C08: if the two sides disagree on the prologue, a PSK or a pre-shared static key, the handshake never
   completes on both sides without an error, and no transport message of one is accepted by the other *)
MismatchNoChannel ==
  prm.mm # "none" =>
    /\ ~(BothFinished /\ \A i \in 1..Len(hist) : ~IsErr(i))
    /\ \A i \in Steps({"t_read", "s_read"}) : IsErr(i)

(* C08/C12 with set_psk on a filled slot: a wrong key replaced by the right one BEFORE the first message gives a
   working channel; a right key replaced by a wrong one before the first message never does *)
OwFirst == prm.ow # NoOw /\ \E i \in 1..Len(hist) : hist[i].op = "set_psk" /\ \A j \in 1..(i-1) : hist[j].op = "build"
OverwriteTakesEffect ==
  /\ (OwFirst /\ prm.ow[3] = "fix") => status # "stuck"
  /\ (OwFirst /\ prm.ow[3] = "break") => ~(BothFinished /\ \A i \in 1..Len(hist) : ~IsErr(i))

Inv == /\ NeverStuck /\ MismatchNoChannel /\ OverwriteTakesEffect /\ Completes /\ Agreement /\ Delivery /\ Framing /\ ErrIsNoOp
       /\ RemoteStaticCorrect /\ RawSplitAgrees /\ NoNonceReuse /\ ReservedUnused
       /\ NoSilentCompletion /\ EncryptedFieldRejectedAtOnce

(* ---- scenario emission -------------------------------------------------- *)
Family == IF TamperBudget > 0 THEN "tamper" ELSE IF FaultBudget > 0 \/ LatePsk THEN "faults"
          ELSE IF Mismatches # {"none"} \/ OverwritePsk THEN "mismatch" ELSE "honest"
Interesting ==
  \/ Family = "honest"
  \/ (Family = "mismatch" /\ (prm.mm # "none" \/ OwDone))
  \/ (Family = "faults" /\ (budget.f < FaultBudget \/ prm.late[1] # "-"))
  \/ (Family = "tamper" /\ budget.t < TamperBudget)
(* C13/C01: the name is hashed VERBATIM. With OddNames the scenario names its protocol itself, spelling every psk
   numeral with a leading zero ("psk03"): the same choice, another string, hence another handshake hash. The class
   is 25519 / BLAKE2b, whose 64-byte HASHLEN makes every such name a padded one (initpad = TRUE). *)
OddName == OddNameOf(prm.pp.pat, prm.pp.psks)
EmitInv ==
  (Done /\ Emit /\ Interesting) =>
    IF prm.mm = "name"
    THEN PrintT(<<"SCN", ToJson([family |-> Family, prm |-> prm, steps |-> hist, name |-> CanonNameOf(prm.pp.pat, prm.pp.psks),
                                 name2 |-> OddName, oddname |-> TRUE])>>)
    ELSE IF OddNames
    THEN PrintT(<<"SCN", ToJson([family |-> Family, prm |-> prm, steps |-> hist, name |-> OddName, oddname |-> TRUE])>>)
    ELSE PrintT(<<"SCN", ToJson([family |-> Family, prm |-> prm, steps |-> hist])>>)
=============================================================================
