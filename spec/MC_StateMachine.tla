-------------------------- MODULE MC_StateMachine --------------------------
(***************************************************************************)
(* Every sequence of API calls, in any phase: the two endpoints of one     *)
(* pattern may at any time write (valid or into an empty buffer), read     *)
(* (the genuine next message, a stale one, garbage), convert to either     *)
(* transport mode (early conversion consumes the session), and - once      *)
(* converted - write and read transport messages.  Exhaustive up to Depth  *)
(* calls with at most MaxFail failing calls; every EDGE of the state graph *)
(* is emitted with a shortest path to its source (C11, C10).               *)
(***************************************************************************)
EXTENDS Snow, Json

CONSTANTS PatSetS, PskSetS,   \* patterns, and psk sets (as a set of sets) to explore
          Depth, MaxFail, EmitEdges,
          HfsS                \* BOOLEAN: names with the hfs modifier (interactive patterns, hfs build)

VARIABLES prm, wire, prev, cnt
svars == <<vars, prm, wire, prev, cnt>>

Ids == {"I", "R"}
OtherS(id) == IF id = "I" THEN "R" ELSE "I"
sI == Atom("sI", 32)
sR == Atom("sR", 32)
PskAtom(n) == CASE n = 0 -> Atom("psk0", 32) [] n = 1 -> Atom("psk1", 32) [] n = 2 -> Atom("psk2", 32)
                [] n = 3 -> Atom("psk3", 32) [] n = 4 -> Atom("psk4", 32)
CfgS(role, pp) ==
  [ s  |-> IF NeedsLocalStatic(pp.pat, role) THEN (IF role = "i" THEN sI ELSE sR) ELSE None,
    rs |-> IF NeedsRemoteStatic(pp.pat, role) THEN Pub(IF role = "i" THEN sR ELSE sI) ELSE None,
    psk |-> [n \in 0..4 |-> IF n \in pp.psks THEN PskAtom(n) ELSE None],
    prologue |-> Atom("prologue", 0),
    fixed_e |-> IF role = "i" THEN Atom("eI", 32) ELSE Atom("eR", 32) ]
BIG == 70000

BuildStep(id, role, pp) ==
  Step("build", id, [role |-> role, pp |-> pp, cfg |-> CfgS(role, pp)],
       [res |-> "ok", obs |-> HsObs(Initialize(id, role, pp, CfgS(role, pp)))])

Init ==
  /\ \E p \in PatSetS, ps \in PskSetS :
       /\ ValidPskSet(p, ps)
       /\ (HfsS => HfsApplies(p))
       /\ prm = [pp |-> PPH(p, ps, 32, FALSE, HfsS)]
  /\ ep = [id \in Ids |-> [mode |-> "hs", st |-> Initialize(id, IF id = "I" THEN "i" ELSE "r", prm.pp,
                                                           CfgS(IF id = "I" THEN "i" ELSE "r", prm.pp))]]
  /\ hist = <<BuildStep("I", "i", prm.pp), BuildStep("R", "r", prm.pp)>>
  /\ aeadLog = {}
  /\ wire = [id \in Ids |-> <<>>]     \* wire[id]: the latest genuine message addressed to id, not yet read
  /\ prev = [id \in Ids |-> <<>>]     \* prev[id]: the message id read before that (stale)
  /\ cnt = [d |-> 0, f |-> 0, w |-> 0]

Last == hist'[Len(hist')]
Count == cnt' = [cnt EXCEPT !.d = @ + 1, !.f = IF Last.exp.res = "err" THEN @ + 1 ELSE @,
                            !.w = IF Last.exp.res = "ok" /\ Last.op \in {"hs_write", "t_write", "s_write"} THEN @ + 1 ELSE @]
Can == cnt.d < Depth
FailOk == Last.exp.res = "ok" \/ cnt.f < MaxFail
PayS == Lit("p" \o ToString(cnt.w), 2)

DoWrite(id) ==
  /\ Can
  /\ \/ /\ Mode(id) = "hs" /\ \E b \in {BIG, 0} : HsWrite(id, PayS, b, TRUE)
     \/ /\ Mode(id) = "hs" /\ HsWrite(id, Lit("big", MAXMSG), BIG, TRUE)      \* oversized: refused, nothing moves
     \/ /\ Mode(id) = "tr" /\ \E b \in {BIG, 0} : TrWrite(id, PayS, b)
     \/ /\ Mode(id) = "sl" /\ \E b \in {BIG, 0} : SlWrite(id, NLo(0), PayS, b)
  /\ FailOk
  /\ IF Last.exp.res = "ok"
     THEN wire' = [wire EXCEPT ![OtherS(id)] = Last.exp.out]
     ELSE UNCHANGED wire
  /\ UNCHANGED <<prm, prev>> /\ Count

ReadMsg(id, m) ==
  \/ Mode(id) = "hs" /\ HsRead(id, m, BIG)
  \/ Mode(id) = "tr" /\ TrRead(id, m, BIG)
  \/ Mode(id) = "sl" /\ SlRead(id, NLo(0), m, BIG)

DoRead(id) ==
  /\ Can
  /\ \E kind \in {"genuine", "stale", "garbage", "toolong"} :
       LET m == CASE kind = "genuine" -> wire[id]
                  [] kind = "stale"   -> prev[id]
                  [] kind = "garbage" -> <<Lit("junk", 40)>>
                  [] kind = "toolong" -> <<Lit("junk", MAXMSG + 1)>> IN
       /\ (kind = "genuine" => wire[id] # <<>>)
       /\ (kind = "stale" => prev[id] # <<>>)
       /\ ReadMsg(id, m)
       /\ IF Last.exp.res = "ok" /\ kind = "genuine"
          THEN /\ prev' = [prev EXCEPT ![id] = wire[id]]
               /\ wire' = [wire EXCEPT ![id] = <<>>]
          ELSE UNCHANGED <<wire, prev>>
  /\ FailOk
  /\ UNCHANGED prm /\ Count

DoConvert(id) ==
  /\ Can /\ Mode(id) = "hs"
  /\ \E sf \in BOOLEAN : Convert(id, sf)
  /\ FailOk
  /\ UNCHANGED <<prm, wire, prev>> /\ Count

Next == \E id \in Ids : DoWrite(id) \/ DoRead(id) \/ DoConvert(id)
Spec == Init /\ [][Next]_svars

(* ---- C11: the indicators always equal those implied by the pattern and the number of
        messages successfully processed; the conversion is possible exactly when finished *)
N == NumMsgs(prm.pp.pat)
Indicators ==
  \A id \in Ids : Mode(id) = "hs" =>
    LET st == St(id) o == HsObs(st) IN
    /\ st.pos \in 0..N
    /\ o.fin = (st.pos = N)
    /\ o.turn = ((st.pos % 2 = 0) = (st.role = "i"))
    /\ o.init = (id = "I")
(* an out-of-phase call has the documented state error among its allowed kinds and changes nothing *)
PrevObsS(i, id) ==
  LET S == { j \in 1..(i-1) : hist[j].ep = id /\ "obs" \in DOMAIN hist[j].exp } IN
  hist[CHOOSE j \in S : \A l \in S : l <= j].exp.obs
OutOfPhase ==
  \A i \in 3..Len(hist) :
    (hist[i].exp.res = "err" /\ "obs" \in DOMAIN hist[i].exp) => hist[i].exp.obs = PrevObsS(i, hist[i].ep)
(* transport mode is entered only after the last message *)
ConvertOnlyFinished ==
  \A i \in 1..Len(hist) :
    (hist[i].op \in {"to_transport", "to_stateless"} /\ hist[i].exp.res = "ok") =>
       \E j \in 1..(i-1) : hist[j].ep = hist[i].ep /\ "obs" \in DOMAIN hist[j].exp
                           /\ "fin" \in DOMAIN hist[j].exp.obs /\ hist[j].exp.obs.fin
                           /\ \A l \in (j+1)..(i-1) : hist[l].ep # hist[i].ep
OneWayS ==
  prm.pp.pat \in OneWay =>
    \A i \in 1..Len(hist) :
      /\ (hist[i].op \in {"t_write", "s_write"} /\ hist[i].ep = "R") => hist[i].exp.res = "err"
      /\ (hist[i].op \in {"t_read", "s_read"} /\ hist[i].ep = "I") => hist[i].exp.res = "err"

InvS == Indicators /\ OutOfPhase /\ ConvertOnlyFinished /\ OneWayS

ViewS == <<ep, prm, wire, prev, cnt>>
EmitEdge ==
  EmitEdges => PrintT(<<"SCN", ToJson([family |-> "statemachine", prm |-> prm, noreuse |-> FALSE, steps |-> hist'])>>)
=============================================================================
