---------------------------- MODULE MC_Transport ----------------------------
(***************************************************************************)
(* The transport phase on its own: two endpoints I and R hold the two      *)
(* Split() keys K1 (initiator->responder) and K2 (responder->initiator) of  *)
(* an honest handshake (named by reference; the replay binds them), in      *)
(* stateful or stateless mode.  The environment may, in any order:          *)
(*   send, deliver any message of the pool to ANY endpoint (so: reorder,    *)
(*   lose, duplicate, reflect), deliver altered / truncated / extended /    *)
(*   garbage / donor-session messages, give an undersized output buffer,    *)
(*   set the receiving nonce, (hook) set the sending nonce, rekey either    *)
(*   direction on either side, install manual keys.                         *)
(* Exploration is exhaustive up to Depth actions within the budgets.        *)
(* Every EDGE of the state graph is emitted with a shortest path to its     *)
(* source (history hidden by a VIEW) - one implementation test per model    *)
(* transition: C04, C05, C09, C15, C16.                                     *)
(***************************************************************************)
EXTENDS Snow, NoiseAdversary, Json

CONSTANTS OneWayT,      \* BOOLEAN: the session comes from a one-way pattern
          Stateful,     \* BOOLEAN: TransportState (TRUE) or StatelessTransportState (FALSE)
          NonceMode,    \* "lo" | "top": counters start at 0, or next to the reserved value (hook)
          MaxSend,      \* messages per direction
          Depth,        \* actions per behaviour
          BadBudget,    \* altered / garbage / donor deliveries per behaviour
          SetBudget,    \* explicit nonce settings per behaviour
          RekeyBudget,  \* rekey operations per behaviour
          Probes,       \* BOOLEAN: follow every emitted edge with a write/read round trip in both directions (see ProbeSteps)
          SmallBufs,    \* BOOLEAN: also try undersized buffers
          PayBase,      \* ordinary payloads are PayBase + j bytes long
          BigBudget,    \* sends with a maximum-size (65535-16) and an oversized (+1) payload per behaviour
          EmitEdges,    \* BOOLEAN
          XN1, XN2, XN3, XN4 \* further nonce values 2^XN1 + XN2 and 2^XN3 + XN4 (seed-derived mid-range counters; XN1 = 0: none)

VARIABLES pool,   \* messages written so far: [m, from, j]
          cnt,    \* counters: depth, sends per endpoint, budgets
          seq     \* per endpoint: sequence of payload ids accepted so far (history, C05)
tvars == <<vars, pool, cnt, seq>>

Ref(n) == <<"ref", n>>
Ids == {"I", "R"}
OtherT(id) == IF id = "I" THEN "R" ELSE "I"
PPT == PP("NN", {}, 32, FALSE)       \* only publen matters here (lengths of literals)

Start(n) == IF NonceMode = "top" THEN NTop(2) ELSE NZero
TsInit(id) ==
  [role |-> IF id = "I" THEN "i" ELSE "r", oneway |-> OneWayT,
   c1 |-> [k |-> Ref("K1"), n |-> Start(0)], c2 |-> [k |-> Ref("K2"), n |-> Start(0)],
   rs |-> <<"skip">>, rs_on |-> TRUE, pp |-> PPT, id |-> id]

(* nonce values offered to explicit settings and to stateless calls *)
ExtraNonces == IF XN1 = 0 THEN {} ELSE {<<"pow", XN1, XN2>>, <<"pow", XN3, XN4>>}
NonceChoices ==
  (IF NonceMode = "top" THEN {NTop(2), NTop(1), NTop(0), NLo(0)}
   ELSE {NLo(0), NLo(1), NLo(2), <<"pow", 32, 0>>, <<"pow", 32, 1>>, <<"pow", 63, 0>>}) \cup ExtraNonces

PN == IF NonceMode = "top" THEN NTop(1) ELSE NLo(1)      \* the nonce of stateless probe / tag-only writes
PLenT(j) == PayBase + j
PayT(id, j) == Lit((IF id = "I" THEN "ti" ELSE "tr") \o ToString(j), PLenT(j))
BIG == 70000

(* messages of a donor session with the same long-term keys: other split keys D1/D2 *)
Donor == { <<Aead(Ref("D1"), Start(0), Empty, Lit("d1", 3))>>, <<Aead(Ref("D2"), Start(0), Empty, Lit("d2", 3))>> }
Garbage == { <<Lit("junk", 0)>>, <<Lit("junk", 15)>>, <<Lit("junk", 16)>>, <<Lit("junk", 21)>>, <<Lit("junk", MAXMSG + 1)>> }
BadOf(m) == { AltField(m, 1, "flipfirst"), AltField(m, 1, "fliplast"), AltField(m, 1, "flipmid"),
              TruncAt(m, SumLen(m, 32) - 1, 32), TruncAt(m, 15, 32), TruncAt(m, TAGLEN, 32), Extend(m, 1) }

Init ==
  /\ ep = [id \in Ids |-> [mode |-> IF Stateful THEN "tr" ELSE "sl", st |-> TsInit(id)]]
  /\ hist = <<>>
  /\ aeadLog = {}
  /\ pool = {}
  /\ cnt = [d |-> 0, sI |-> 0, sR |-> 0, bad |-> BadBudget, set |-> SetBudget, rk |-> RekeyBudget, big |-> BigBudget, hook |-> FALSE]
  /\ seq = [id \in Ids |-> <<>>]

Tick == cnt.d < Depth
Sent(id) == IF id = "I" THEN cnt.sI ELSE cnt.sR
Bump(c, id) == IF id = "I" THEN [c EXCEPT !.sI = @ + 1, !.d = @ + 1] ELSE [c EXCEPT !.sR = @ + 1, !.d = @ + 1]
LastStep == hist'[Len(hist')]
OkStep == LastStep.exp.res = "ok"

Send(id) ==
  /\ Tick /\ Sent(id) < MaxSend
  /\ LET j == Sent(id) + 1 p == PayT(id, j) IN
     /\ \E buf \in (IF SmallBufs THEN {BIG, PLenT(j) + TAGLEN, PLenT(j) + TAGLEN - 1} ELSE {BIG}) :
          IF Stateful THEN TrWrite(id, p, buf)
          ELSE \E n \in NonceChoices : SlWrite(id, n, p, buf)
     /\ IF OkStep
        THEN /\ pool' = pool \cup {[m |-> LastStep.exp.out, from |-> id, j |-> j]}
             /\ cnt' = Bump(cnt, id)
        ELSE /\ UNCHANGED pool
             /\ cnt' = [cnt EXCEPT !.d = @ + 1]
  /\ UNCHANGED seq

(* a maximum-size payload (must be accepted: exactly 65535 bytes on the wire) or one byte more (Input) *)
(* ... and the other extreme: an EMPTY payload (the message is the bare tag) into buffers of 16, 15 and 0 bytes *)
SendBig(id) ==
  /\ Tick /\ cnt.big > 0
  /\ \/ \E len \in {MAXMSG - TAGLEN, MAXMSG - TAGLEN + 1} :
          LET p == Lit(IF id = "I" THEN "bigi" ELSE "bigr", len) IN
          IF Stateful THEN TrWrite(id, p, BIG)
          ELSE \E n \in NonceChoices : SlWrite(id, n, p, BIG)
     \/ \E buf \in {TAGLEN, TAGLEN - 1, 0} :
          IF Stateful THEN TrWrite(id, Empty, buf)
          ELSE SlWrite(id, PN, Empty, buf)
  /\ IF OkStep
     THEN pool' = pool \cup {[m |-> LastStep.exp.out, from |-> id, j |-> MAXMSG]}
     ELSE UNCHANGED pool
  /\ cnt' = [cnt EXCEPT !.d = @ + 1, !.big = @ - 1]
  /\ UNCHANGED seq

ReadIt(id, m, outlen) ==
  IF Stateful THEN TrRead(id, m, outlen)
  ELSE \E n \in NonceChoices : SlRead(id, n, m, outlen)

Accepting(id) == seq' = IF OkStep THEN [seq EXCEPT ![id] = Append(@, LastStep.exp.payload)] ELSE seq

Deliver(id) ==           \* any pool message to any endpoint: reorder, loss, duplication, reflection
  /\ Tick
  /\ \E x \in pool :
       \E ol \in (IF SmallBufs /\ x.j <= MaxSend THEN {BIG, PLenT(x.j), PLenT(x.j) - 1, PLenT(x.j) + 8} ELSE {BIG}) : ReadIt(id, x.m, ol)
  /\ Accepting(id)
  /\ cnt' = [cnt EXCEPT !.d = @ + 1]
  /\ UNCHANGED pool

DeliverBad(id) ==
  /\ Tick /\ cnt.bad > 0
  /\ \/ \E m \in Garbage \cup Donor : ReadIt(id, m, BIG)
     \/ \E x \in pool : \E m \in BadOf(x.m) :
          \E ol \in (IF SmallBufs /\ x.j <= MaxSend THEN {BIG, PLenT(x.j), PLenT(x.j) + 8} ELSE {BIG}) : ReadIt(id, m, ol)
  /\ Accepting(id)
  /\ cnt' = [cnt EXCEPT !.d = @ + 1, !.bad = @ - 1]
  /\ UNCHANGED pool

SetNonce(id) ==
  /\ Tick /\ cnt.set > 0 /\ Stateful
  /\ \E n \in NonceChoices :
       \/ TrSetRecvNonce(id, n) /\ cnt' = [cnt EXCEPT !.d = @ + 1, !.set = @ - 1]
       \/ HookSetSendNonce(id, n) /\ cnt' = [cnt EXCEPT !.d = @ + 1, !.set = @ - 1, !.hook = TRUE]
  /\ UNCHANGED <<pool, seq>>

mk1 == Atom("mk1", 32)
mk2 == Atom("mk2", 32)
RekeyBoth(id, k1, k2, via) ==
  /\ Mode(id) \in {"tr", "sl"}
  /\ LET ts0 == St(id)
         ts1 == IF k1 # None THEN RekeyManually(ts0, "c1", k1) ELSE ts0
         ts2 == IF k2 # None THEN RekeyManually(ts1, "c2", k2) ELSE ts1 IN
     /\ ep' = [ep EXCEPT ![id].st = ts2]
     /\ Log(Step("rekey_manual", id, [k1 |-> k1, k2 |-> k2, via |-> via],
                 [res |-> "ok", obs |-> TrObs(ts2, Mode(id) = "tr")]))
  /\ UNCHANGED aeadLog

DoRekey(id) ==
  /\ Tick /\ cnt.rk > 0
  /\ \/ TrRekey(id, "out")
     \/ TrRekey(id, "in")
     \/ \E ks \in {<<mk1, None>>, <<None, mk2>>, <<mk1, mk2>>} : \E via \in {"both", "single"} :
          RekeyBoth(id, ks[1], ks[2], via)
  /\ cnt' = [cnt EXCEPT !.d = @ + 1, !.rk = @ - 1]
  /\ UNCHANGED <<pool, seq>>

Next == \E id \in Ids : Send(id) \/ SendBig(id) \/ Deliver(id) \/ DeliverBad(id) \/ SetNonce(id) \/ DoRekey(id)
Spec == Init /\ [][Next]_tvars

(* ---- properties --------------------------------------------------------- *)
IsErr(i) == hist[i].exp.res = "err"
Reads == { i \in 1..Len(hist) : hist[i].op \in {"t_read", "s_read"} }
Writes == { i \in 1..Len(hist) : hist[i].op \in {"t_write", "s_write"} }

(* C04: a read returns Ok only for a message the PEER wrote (this direction), and returns its payload *)
OnlyPeerAccepted ==
  \A i \in Reads : ~IsErr(i) =>
    \E j \in Writes : /\ j < i /\ ~IsErr(j)
                      /\ hist[j].ep = OtherT(hist[i].ep)
                      /\ hist[j].exp.out = hist[i].args.msg
                      /\ hist[j].args.payload = hist[i].exp.payload
                      /\ (~Stateful => hist[j].args.n = hist[i].args.n)

(* C05: without explicit nonce settings and rekeys a stateful receiver accepts the peer's messages in
   sending order, each at most once *)
PayIdx(id, p) == CHOOSE j \in 1..MaxSend : PayT(OtherT(id), j) = p
InOrderOnce ==
  (Stateful /\ cnt.set = SetBudget /\ cnt.rk = RekeyBudget /\ cnt.big = BigBudget /\ NonceMode = "lo") =>
    \A id \in Ids : \A a \in 1..Len(seq[id]) : PayIdx(id, seq[id][a]) = a

(* C05/C07: a rejected delivery changes nothing the API exposes *)
PrevObsT(i, id) ==
  LET S == { j \in 1..(i-1) : hist[j].ep = id } IN
  IF S = {} THEN TrObs(TsInit(id), Stateful) ELSE hist[CHOOSE j \in S : \A l \in S : l <= j].exp.obs
RejectIsNoOp == \A i \in 1..Len(hist) : IsErr(i) => hist[i].exp.obs = PrevObsT(i, hist[i].ep)

(* C09: counters move by exactly one, on success only (or by an explicit setting) *)
StepsByOne ==
  Stateful =>
  \A i \in 1..Len(hist) :
    LET o == hist[i].exp.obs p == PrevObsT(i, hist[i].ep) IN
    /\ (hist[i].op = "t_write" /\ ~IsErr(i)) => (o.sn = NInc(p.sn) /\ o.rn = p.rn)
    /\ (hist[i].op = "t_read"  /\ ~IsErr(i)) => (o.rn = NInc(p.rn) /\ o.sn = p.sn)
    /\ (hist[i].op \in {"rekey_out", "rekey_in", "rekey_manual"}) => (o.sn = p.sn /\ o.rn = p.rn)
(* C09: at the reserved value every operation fails with the exhaustion error among its causes *)
ExhaustedFails ==
  \A i \in 1..Len(hist) :
    LET p == PrevObsT(i, hist[i].ep) IN
    /\ (hist[i].op = "t_write" /\ NIsMax(p.sn)) => (IsErr(i) /\ "T_EXHAUSTED" \in hist[i].exp.causes)
    /\ (hist[i].op = "t_read"  /\ NIsMax(p.rn)) => (IsErr(i) /\ "T_EXHAUSTED" \in hist[i].exp.causes)
    /\ (hist[i].op \in {"s_write", "s_read"} /\ NIsMax(hist[i].args.n)) => IsErr(i)

(* C11: one-way rules *)
OneWayRule ==
  OneWayT => \A i \in 1..Len(hist) :
    /\ (hist[i].op \in {"t_write", "s_write"} /\ hist[i].ep = "R") => (IsErr(i) /\ "T_ONEWAY" \in hist[i].exp.causes)
    /\ (hist[i].op \in {"t_read", "s_read"} /\ hist[i].ep = "I") => (IsErr(i) /\ "T_ONEWAY" \in hist[i].exp.causes)

NoNonceReuseT ==   \* C06 in transport: unless the application itself repeats a nonce (stateless) or moves the counter back (hook)
  (Stateful /\ ~cnt.hook) => NoNonceReuse

InvT == /\ OnlyPeerAccepted /\ InOrderOnce /\ RejectIsNoOp /\ StepsByOne /\ ExhaustedFails /\ OneWayRule
        /\ NoNonceReuseT

(* ---- edge-cover emission ------------------------------------------------- *)
(* hist is hidden by the VIEW: each distinct state is expanded once and hist is the breadth-first
   path to it; the action constraint prints that path plus the new step for EVERY successor generated. *)
ViewT == <<ep, pool, cnt, seq>>

(* PROBES.  The VIEW identifies states, so an edge is replayed after the SHORTEST path to its source only, and *)
(* what the edge leaves behind is compared through the observables (counters) alone.  A divergence that sits   *)
(* in the KEY (a rekey that silently did nothing, say, because of what happened earlier) would then only show   *)
(* if a later edge happened to be replayed on top of the same history.  With Probes, every emitted edge is      *)
(* followed by four calls computed by the pure operators from the post-state: I writes, R reads that, R        *)
(* writes, I reads that - so the keys and counters both sides REALLY hold after the edge are compared with the *)
(* model's, byte for byte, for every edge and every path.                                                     *)
PrW(ts, id, p) ==
  LET w == IF Stateful THEN TWrite(ts, p, BIG) ELSE SWrite(ts, PN, p, BIG) @@ [ts |-> ts]
      args == IF Stateful THEN [payload |-> p, buf |-> BIG] ELSE [n |-> PN, payload |-> p, buf |-> BIG]
      op == IF Stateful THEN "t_write" ELSE "s_write" IN
  IF w.causes = {}
  THEN [step |-> Step(op, id, args, [res |-> "ok", len |-> w.len, out |-> <<w.out>>, obs |-> TrObs(w.ts, Stateful)]),
        ts |-> w.ts, out |-> <<w.out>>]
  ELSE [step |-> Step(op, id, args, [res |-> "err", causes |-> w.causes, kinds |-> KindsOfSet(w.causes), obs |-> TrObs(ts, Stateful)]),
        ts |-> ts, out |-> <<>>]
PrR(ts, id, m) ==
  LET r == IF Stateful THEN TRead(ts, m, BIG) ELSE SRead(ts, PN, m, BIG) @@ [ts |-> ts]
      args == IF Stateful THEN [msg |-> m, outlen |-> BIG] ELSE [n |-> PN, msg |-> m, outlen |-> BIG]
      op == IF Stateful THEN "t_read" ELSE "s_read" IN
  IF r.causes = {}
  THEN [step |-> Step(op, id, args, [res |-> "ok", len |-> r.plen, payload |-> r.payload, obs |-> TrObs(r.ts, Stateful)]), ts |-> r.ts]
  ELSE [step |-> Step(op, id, args, [res |-> "err", causes |-> r.causes, noleak |-> LeakSet(m),
                                      kinds |-> KindsOfSet(r.causes), obs |-> TrObs(ts, Stateful)]), ts |-> ts]
ProbeSteps(e) ==
  LET w1 == PrW(e["I"].st, "I", Lit("probeI", 5))
      r1 == PrR(e["R"].st, "R", w1.out)
      w2 == PrW(r1.ts, "R", Lit("probeR", 6))
      r2 == PrR(w1.ts, "I", w2.out) IN
  <<w1.step>> \o (IF w1.out = <<>> THEN <<>> ELSE <<r1.step>>) \o <<w2.step>> \o (IF w2.out = <<>> THEN <<>> ELSE <<r2.step>>)

EmitEdge ==
  EmitEdges => PrintT(<<"SCN", ToJson([family |-> "transport",
                                        prm |-> [oneway |-> OneWayT, stateful |-> Stateful, noncemode |-> NonceMode],
                                        \* whether the (key, nonce) uniqueness predicate applies to the observed
                                        \* encryptions: not when the application itself chose/moved the nonces
                                        noreuse |-> (Stateful /\ ~cnt'.hook),    \* a RECEIVING nonce setting never excuses a reuse
                                        steps |-> hist' \o (IF Probes THEN ProbeSteps(ep') ELSE <<>>)])>>)
=============================================================================
