-------------------------- MODULE NoiseAdversary --------------------------
(***************************************************************************)
(* What the network adversary of the properties can do to a message        *)
(* (a sequence of fields): alter a field, truncate anywhere, extend,       *)
(* substitute.  It has no keys of its own (the quantifier of C03/C04).     *)
(* Every derived message is again a sequence of fields, so the reader's    *)
(* TakeBytes works on it uniformly.                                        *)
(***************************************************************************)
EXTENDS NoiseTerms

(* alter field j (same length): kinds flipfirst / fliplast / flipmid / junk *)
AltField(msg, j, kind) == [msg EXCEPT ![j] = Alt(msg[j], kind)]

(* prefix sums: end offset of each field *)
RECURSIVE EndsFrom(_, _, _)
EndsFrom(msg, publen, acc) ==
  IF msg = <<>> THEN <<>>
  ELSE LET e == acc + TLen(Head(msg), publen) IN <<e>> \o EndsFrom(Tail(msg), publen, e)
Ends(msg, publen) == EndsFrom(msg, publen, 0)

(* first L bytes of the message: whole fields, then possibly a cut field *)
RECURSIVE TruncAt(_, _, _)
TruncAt(msg, L, publen) ==
  IF msg = <<>> \/ L = 0 THEN <<>>
  ELSE LET f == Head(msg) fl == TLen(f, publen) IN
       IF L >= fl THEN <<f>> \o TruncAt(Tail(msg), L - fl, publen)
       ELSE <<Cut(f, L)>>

Extend(msg, k) == Append(msg, <<"lit", "junk", k>>)

(* truncation lengths worth exploring: 0, each field boundary, one byte   *)
(* short of each boundary, one byte into each field, and (for AEAD fields) *)
(* a cut inside the tag                                                    *)
TruncLens(msg, publen) ==
  LET ends == Ends(msg, publen) total == SumLen(msg, publen)
      S == {0} \cup { ends[j] : j \in 1..Len(ends) } \cup { ends[j] - 1 : j \in 1..Len(ends) }
              \cup { ends[j] - TAGLEN : j \in 1..Len(ends) }
              \cup { ends[j] + 1 : j \in 1..Len(ends) }
  IN { l \in S : l >= 0 /\ l < total }

AltKinds == {"flipfirst", "fliplast", "junk"}
=============================================================================
