---------------------------- MODULE NoiseNames ----------------------------
(***************************************************************************)
(* The protocol-name grammar (Noise rev 34, section 8) over strings:       *)
(*   Noise_<pattern><modifiers>_<dh>_<cipher>_<hash>                       *)
(* with snow's documented extensions (P256, XChaChaPoly; 448 parses but    *)
(* no backend provides it).  Used in both directions:                      *)
(*   - NameOf/AllNames ENUMERATE the language (D1: each is parsed by snow),*)
(*   - ParseName JUDGES an arbitrary string (D2: generic string edits made  *)
(*     by the harness are judged here, not in Rust).                       *)
(***************************************************************************)
EXTENDS NoisePatterns

DhNames     == {"25519", "448", "P256"}
CipherNames == {"ChaChaPoly", "AESGCM", "XChaChaPoly"}
HashNames   == {"SHA256", "SHA512", "BLAKE2s", "BLAKE2b"}

(* primitive facts the instances need (Noise 12; snow docs for the extensions) *)
HashLen(h)  == IF h \in {"SHA256", "BLAKE2s"} THEN 32 ELSE 64
PubLen(d)   == CASE d = "25519" -> 32 [] d = "P256" -> 65 [] d = "448" -> 56
Resolvable(d) == d # "448"         \* parseable, but no built-in backend implements it

Digits == <<"0","1","2","3","4","5","6","7","8","9">>
DigitVal(c) == CHOOSE i \in 0..9 : Digits[i+1] = c
IsDigit(c) == \E i \in 1..10 : Digits[i] = c

(* ---- enumeration ------------------------------------------------------ *)
RECURSIVE JoinPlus(_)
JoinPlus(mods) == IF mods = <<>> THEN ""
                  ELSE IF Len(mods) = 1 THEN mods[1]
                  ELSE mods[1] \o "+" \o JoinPlus(Tail(mods))

NameOf(pat, mods, dh, cipher, hash) ==
  "Noise_" \o pat \o JoinPlus(mods) \o "_" \o dh \o "_" \o cipher \o "_" \o hash

(* ascending list of psk modifiers for a set of indices *)
RECURSIVE PskModsFrom(_, _)
PskModsFrom(psks, n) ==
  IF n > 4 THEN <<>>
  ELSE (IF n \in psks THEN <<PskTok(n)>> ELSE <<>>) \o PskModsFrom(psks, n + 1)
PskMods(psks) == PskModsFrom(psks, 0)

(* ---- parsing ----------------------------------------------------------- *)
Chars(s) == [i \in 1..Len(s) |-> SubSeq(s, i, i)]

(* split a string at a separator character: sequence of (possibly empty) pieces *)
RECURSIVE SplitFrom(_, _, _, _)
SplitFrom(s, sep, i, start) ==
  IF i > Len(s) THEN <<SubSeq(s, start, Len(s))>>
  ELSE IF SubSeq(s, i, i) = sep
       THEN <<SubSeq(s, start, i - 1)>> \o SplitFrom(s, sep, i + 1, i + 1)
       ELSE SplitFrom(s, sep, i + 1, start)
SplitStr(s, sep) == SplitFrom(s, sep, 1, 1)

(* decimal value of a non-empty all-digit string, or -1 *)
RECURSIVE DecFrom(_, _, _)
DecFrom(s, i, acc) ==
  IF i > Len(s) THEN acc
  ELSE IF ~IsDigit(SubSeq(s, i, i)) \/ acc > 1000 THEN 0 - 1
  ELSE DecFrom(s, i + 1, acc * 10 + DigitVal(SubSeq(s, i, i)))
Dec(s) == IF Len(s) = 0 THEN 0 - 1 ELSE DecFrom(s, 1, 0)

(* a modifier: "fallback" or "psk" followed by a decimal numeral <= 255    *)
(* (LenientPsk: leading zeros name the same index - the property does not  *)
(*  define the numeral; a leading "+" sign is NOT a numeral)               *)
(* (hfs build of the crate only: "hfs", the hybrid-forward-secrecy modifier) *)
ModKindH(m, hfsBuild) ==
  IF m = "fallback" THEN [ok |-> TRUE, kind |-> "fallback", n |-> 0, canon |-> TRUE]
  ELSE IF hfsBuild /\ m = "hfs" THEN [ok |-> TRUE, kind |-> "hfs", n |-> 0, canon |-> TRUE]
  ELSE IF Len(m) >= 3 /\ SubSeq(m, 1, 3) = "psk"
       THEN LET num == SubSeq(m, 4, Len(m))
                v == Dec(num) IN
            \* canon: the numeral is written without leading zeros.  The property does not define the numeral, so a
            \* name whose only oddity is a non-canonical numeral may be accepted (naming that index) OR rejected.
            IF v >= 0 /\ v <= 255 THEN [ok |-> TRUE, kind |-> "psk", n |-> v, canon |-> (Len(num) = 1 \/ SubSeq(num, 1, 1) # "0")]
            ELSE [ok |-> FALSE, kind |-> "badpsk", n |-> 0, canon |-> TRUE]
  ELSE [ok |-> FALSE, kind |-> "unknown", n |-> 0, canon |-> TRUE]
ModKind(m) == ModKindH(m, FALSE)
KemNames == {"Kyber1024"}

(* longest pattern name that is a prefix of the handshake field *)
PatPrefixLens(hs) == { k \in 1..4 : k <= Len(hs) /\ SubSeq(hs, 1, k) \in PatternNames }
MaxOf(S) == CHOOSE x \in S : \A y \in S : y <= x

NoDup(seq) == \A i, j \in 1..Len(seq) : i # j => seq[i] # seq[j]

(* ParseName(s) = [ok, pat, mods (sequence of [kind, n]), dh, cipher, hash] *)
(* In the hfs build the DH field may be "<dh>+<kem>": everything after the   *)
(* FIRST "+" names the KEM; a KEM is given iff the hfs modifier is present. *)
Bad == [ok |-> FALSE]
FirstPlus(s) == LET S == { i \in 1..Len(s) : SubSeq(s, i, i) = "+" } IN IF S = {} THEN 0 ELSE CHOOSE i \in S : \A j \in S : i <= j
ParseNameH(s, hfsBuild) ==
  LET parts == SplitStr(s, "_") IN
  IF Len(parts) # 5 THEN Bad
  ELSE IF parts[1] # "Noise" THEN Bad
  ELSE IF PatPrefixLens(parts[2]) = {} THEN Bad
  ELSE
  LET k    == MaxOf(PatPrefixLens(parts[2]))
      pat  == SubSeq(parts[2], 1, k)
      rest == SubSeq(parts[2], k + 1, Len(parts[2]))
      mstr == IF rest = "" THEN <<>> ELSE SplitStr(rest, "+")
      mk   == [i \in 1..Len(mstr) |-> ModKindH(mstr[i], hfsBuild)]
      mods == [i \in 1..Len(mstr) |-> [kind |-> mk[i].kind, n |-> mk[i].n]]
      fp   == IF hfsBuild THEN FirstPlus(parts[3]) ELSE 0
      dh   == IF fp = 0 THEN parts[3] ELSE SubSeq(parts[3], 1, fp - 1)
      kem  == IF fp = 0 THEN "" ELSE SubSeq(parts[3], fp + 1, Len(parts[3]))
      ishfs == \E i \in 1..Len(mods) : mods[i].kind = "hfs"
  IN
  IF \E i \in 1..Len(mstr) : ~mk[i].ok THEN Bad
  ELSE IF ~NoDup(mods) THEN Bad
  ELSE IF dh \notin DhNames \/ parts[4] \notin CipherNames \/ parts[5] \notin HashNames THEN Bad
  ELSE IF fp # 0 /\ kem \notin KemNames THEN Bad
  ELSE IF ishfs # (fp # 0) THEN Bad
  ELSE [ok |-> TRUE, pat |-> pat, mods |-> mods, dh |-> dh, kem |-> kem, cipher |-> parts[4], hash |-> parts[5],
        lenient |-> \E i \in 1..Len(mstr) : ~mk[i].canon]
ParseName(s) == ParseNameH(s, FALSE)

ValidName(s) == ParseName(s).ok

(* what building an endpoint from a parsed name must report (C12):         *)
(* every modifier implemented and fitting the pattern's message count      *)
NameBuildCauses(p) ==
     (IF \E i \in 1..Len(p.mods) : p.mods[i].kind = "fallback" THEN {"B_MODIFIER"} ELSE {})
  \cup (IF \E i \in 1..Len(p.mods) : p.mods[i].kind = "psk" /\ p.mods[i].n > NumMsgs(p.pat)
        THEN {"B_PSK_INDEX"} ELSE {})
  \cup (IF ~Resolvable(p.dh) THEN {"B_NO_DH"} ELSE {})
  \cup (IF (\E i \in 1..Len(p.mods) : p.mods[i].kind = "hfs") /\ p.pat \in OneWay THEN {"B_MODIFIER"} ELSE {})
=============================================================================
