-------------------------- MODULE NoiseNamesLite --------------------------
(***************************************************************************)
(* Name construction needed by the session model without pulling in the    *)
(* whole grammar module (whose operator names clash with NoiseObjects).    *)
(***************************************************************************)
EXTENDS Naturals, Sequences, TLC

RECURSIVE OddMods(_, _)
OddMods(psks, n) ==
  IF n > 4 THEN ""
  ELSE LET rest == OddMods(psks, n + 1) IN
       IF n \in psks THEN "psk0" \o ToString(n) \o (IF rest = "" THEN "" ELSE "+" \o rest) ELSE rest

RECURSIVE CanonMods(_, _)
CanonMods(psks, n) ==
  IF n > 4 THEN ""
  ELSE LET rest == CanonMods(psks, n + 1) IN
       IF n \in psks THEN "psk" \o ToString(n) \o (IF rest = "" THEN "" ELSE "+" \o rest) ELSE rest
CanonNameOf(pat, psks) == "Noise_" \o pat \o CanonMods(psks, 0) \o "_25519_ChaChaPoly_BLAKE2b"

(* e.g. OddNameOf("XX", {0,3}) = "Noise_XXpsk00+psk03_25519_ChaChaPoly_BLAKE2b" *)
OddNameOf(pat, psks) == "Noise_" \o pat \o OddMods(psks, 0) \o "_25519_ChaChaPoly_BLAKE2b"
=============================================================================
