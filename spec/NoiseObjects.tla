--------------------------- MODULE NoiseObjects ---------------------------
(***************************************************************************)
(* The Noise objects (rev 34, section 5) as PURE operators over records:   *)
(* CipherState, SymmetricState, HandshakeState, and the two transport      *)
(* objects snow builds from Split().  WriteMessage / ReadMessage are       *)
(* recursive folds over the token list of the current message with EVERY   *)
(* failure point explicit: each returns the new state, the fields written, *)
(* the byte index, and the failure cause (Appendix A of DESIGN.md).        *)
(*                                                                         *)
(* The order of steps inside one call follows the order in which snow      *)
(* performs them, so that "the failure happened after token j" means the   *)
(* same thing in the model and in the code.                                *)
(***************************************************************************)
EXTENDS NoiseTerms, NoisePatterns

(* ---- nonces ---------------------------------------------------------- *)
(* <<"lo", j>> is the 64-bit value j ; <<"top", d>> is 2^64-1-d ;         *)
(* <<"pow", e, d>> is 2^e + d (TLC integers are 32-bit).                  *)
(* <<"top", 0>> is the reserved value.                                    *)
NLo(j)      == <<"lo", j>>
NTop(d)     == <<"top", d>>
NZero       == NLo(0)
NReserved   == NTop(0)
NIsMax(n)   == n = NReserved
NInc(n)     == CASE n[1] = "lo"  -> NLo(n[2] + 1)
                 [] n[1] = "top" -> NTop(n[2] - 1)            \* never applied to NReserved
                 [] n[1] = "pow" -> <<"pow", n[2], n[3] + 1>>
                 [] n[1] = "mid" -> \* four 16-bit limbs (trace validation): add one with carry
                      IF n[5] < 65535 THEN <<"mid", n[2], n[3], n[4], n[5] + 1>>
                      ELSE IF n[4] < 65535 THEN <<"mid", n[2], n[3], n[4] + 1, 0>>
                      ELSE IF n[3] < 65535 THEN <<"mid", n[2], n[3] + 1, 0, 0>>
                      ELSE <<"mid", n[2] + 1, 0, 0, 0>>

(* ---- protocol instance ------------------------------------------------ *)
(* pp = [pat, psks, publen, initpad, validates]                           *)
(*   initpad  : the protocol name is not longer than HASHLEN (5.2), so h  *)
(*              starts as the zero-padded name instead of its hash        *)
(*   validates: the DH function rejects byte strings that are not public  *)
(*   keys (P-256 point decoding); X25519 accepts any 32 bytes.            *)
(*   hfs      : the name carries the hfs modifier (and a KEM)              *)
PPH(pat, psks, publen, initpad, hfs) ==
  [pat |-> pat, psks |-> psks, publen |-> publen, initpad |-> initpad,
   validates |-> publen # 32, hfs |-> hfs]
PP(pat, psks, publen, initpad) == PPH(pat, psks, publen, initpad, FALSE)

NameAtom == Atom("name", 0)       \* its length never matters: it is only ever hashed or padded

(* ---- SymmetricState (5.2) -------------------------------------------- *)
(* ss = [h, ck, hk, k, n] : k/n are the handshake CipherState             *)
InitializeSymmetric(pp) ==
  LET nm == IF "altname" \in DOMAIN pp THEN Atom("name2", 0) ELSE NameAtom     \* C08: the peer spells the name differently
      h0 == IF pp.initpad THEN Pad(nm) ELSE Hash(<<nm>>)
  IN [h |-> h0, ck |-> h0, hk |-> FALSE, k |-> None, n |-> NZero]

MixHash(ss, d) == [ss EXCEPT !.h = Hash(<<ss.h, d>>)]

MixKey(ss, ikm) ==
  [ss EXCEPT !.ck = Kdf(ss.ck, ikm, 1),
             !.k  = Trunc(Kdf(ss.ck, ikm, 2), KEYLEN),
             !.n  = NZero,
             !.hk = TRUE]

MixKeyAndHash(ss, ikm) ==
  [ss EXCEPT !.ck = Kdf(ss.ck, ikm, 1),
             !.h  = Hash(<<ss.h, Kdf(ss.ck, ikm, 2)>>),
             !.k  = Trunc(Kdf(ss.ck, ikm, 3), KEYLEN),
             !.n  = NZero,
             !.hk = TRUE]

EncryptAndHash(ss, pt) ==
  IF ss.hk
  THEN LET c == Aead(ss.k, ss.n, ss.h, pt)
       IN [ss |-> MixHash([ss EXCEPT !.n = NInc(ss.n)], c), out |-> c]
  ELSE [ss |-> MixHash(ss, pt), out |-> pt]

DecryptAndHash(ss, c) ==
  IF ss.hk
  THEN IF AeadOpens(ss.k, ss.n, ss.h, c)
       THEN [ok |-> TRUE,  ss |-> MixHash([ss EXCEPT !.n = NInc(ss.n)], c), pt |-> AeadPlain(c)]
       ELSE [ok |-> FALSE, ss |-> ss, pt |-> None]
  ELSE [ok |-> TRUE, ss |-> MixHash(ss, c), pt |-> c]

NoCipher == [k |-> None, n |-> NZero]
Split(ss) ==
  [c1 |-> [k |-> Trunc(Kdf(ss.ck, Empty, 1), KEYLEN), n |-> NZero],
   c2 |-> [k |-> Trunc(Kdf(ss.ck, Empty, 2), KEYLEN), n |-> NZero]]

(* ---- HandshakeState (5.3) -------------------------------------------- *)
NoPsks == [i \in 0..4 |-> None]

(* cfg = [s, rs, psk, prologue, fixed_e]  (terms or None; fixed_e: term or None) *)
Initialize(id, role, pp, cfg) ==
  LET ss0  == MixHash(InitializeSymmetric(pp), cfg.prologue)
      pt   == PatternTable[pp.pat]
      \* pre-messages: initiator's first, then responder's (Noise 5.3)
      ikey == IF role = "i" THEN Pub(cfg.s) ELSE cfg.rs
      rkey == IF role = "r" THEN Pub(cfg.s) ELSE cfg.rs
      ss1  == IF pt.pre_i = <<"s">> THEN MixHash(ss0, ikey) ELSE ss0
      ss2  == IF pt.pre_r = <<"s">> THEN MixHash(ss1, rkey) ELSE ss1
  IN [ id |-> id, role |-> role, pp |-> pp,
       pos |-> 0, turn |-> (role = "i"),
       ss |-> ss2,
       s |-> cfg.s,  s_on |-> cfg.s # None,
       e |-> cfg.fixed_e, e_on |-> FALSE, fixed_e |-> cfg.fixed_e # None,
       rs |-> cfg.rs, rs_on |-> cfg.rs # None,
       re |-> None,  re_on |-> FALSE,
       psk |-> cfg.psk,
       c1 |-> NoCipher, c2 |-> NoCipher,
       rng |-> 0,
       \* hfs: own KEM key pair (generated when "e1" is written), the peer's KEM public key (read from "e1"),
       \* numbers of key generations / encapsulations so far (they name the oracle terms)
       kem |-> None, kem_re |-> None, kgen |-> 0, kenc |-> 0 ]

NMsgs(st)     == NumMsgs(st.pp.pat)
Finished(st)  == st.pos = NMsgs(st)
CurTokens(st) == MsgTokensH(st.pp.pat, st.pp.psks, st.pp.hfs, st.pos + 1)
FLen(st, t)   == TLen(t, st.pp.publen)
MsgLen(st, fields) == SumLen(fields, st.pp.publen)

(* DH operands of a token from this endpoint's point of view (Noise 5.3): *)
(*   ee: e,re   ss: s,rs   es: initiator e,rs / responder s,re            *)
(*   se: initiator s,re / responder e,rs                                  *)
DhOperands(st, tok) ==
  LET i == st.role = "i" IN
  CASE tok = "ee" -> [priv |-> st.e, pon |-> st.e_on, pub |-> st.re, qon |-> st.re_on]
    [] tok = "ss" -> [priv |-> st.s, pon |-> st.s_on, pub |-> st.rs, qon |-> st.rs_on]
    [] tok = "es" -> IF i THEN [priv |-> st.e, pon |-> st.e_on, pub |-> st.rs, qon |-> st.rs_on]
                          ELSE [priv |-> st.s, pon |-> st.s_on, pub |-> st.re, qon |-> st.re_on]
    [] tok = "se" -> IF i THEN [priv |-> st.s, pon |-> st.s_on, pub |-> st.re, qon |-> st.re_on]
                          ELSE [priv |-> st.e, pon |-> st.e_on, pub |-> st.rs, qon |-> st.rs_on]

(* result of the DH token: "ok" with the new symmetric state, or a cause *)
DhStep(st, tok) ==
  LET o == DhOperands(st, tok) IN
  IF ~(o.pon /\ o.qon) THEN [cause |-> "NO_KEY_DH", ss |-> st.ss]
  \* (a validating DH function accepts genuine public keys and the inverse of one - also a point of the curve)
  ELSE IF st.pp.validates /\ ~(o.pub[1] = "pub" \/ (o.pub[1] = "alt" /\ o.pub[3] = "negate"))
       THEN [cause |-> "DH_INVALID", ss |-> st.ss]
  ELSE [cause |-> "none", ss |-> MixKey(st.ss, DH(o.priv, o.pub))]

(* ---- the length a message has by its STRUCTURE alone --------------------- *)
(* (tokens of the message, whether a key is set when each field is written,   *)
(* payload length) - independent of whether the keys the tokens need are      *)
(* there.  An implementation may test the buffer / the 65535 limit against    *)
(* this length before it looks at anything else, so when it does not fit,     *)
(* Input is an acceptable answer whatever else is wrong with the call.        *)
RECURSIVE StructLen(_, _, _, _)
StructLen(pp, toks, hk, acc) ==      \* returns <<length of the token fields, key set afterwards>>
  IF toks = <<>> THEN <<acc, hk>>
  ELSE LET t == Head(toks) rest == Tail(toks) tg == IF hk THEN TAGLEN ELSE 0 IN
       CASE t = "e"           -> StructLen(pp, rest, hk \/ IsPsk(pp.psks), acc + pp.publen)
         [] t = "s"           -> StructLen(pp, rest, hk, acc + pp.publen + tg)
         [] t \in PskTokens   -> StructLen(pp, rest, TRUE, acc)
         [] t \in DhTokens    -> StructLen(pp, rest, TRUE, acc)
         [] t = "e1"          -> StructLen(pp, rest, hk, acc + KEMPUBLEN + tg)
         [] t = "ekem1"       -> StructLen(pp, rest, TRUE, acc + KEMCTLEN + tg)
MsgStructLen(st, plen) ==
  LET r == StructLen(st.pp, MsgTokensH(st.pp.pat, st.pp.psks, st.pp.hfs, st.pos + 1), st.ss.hk, 0) IN
  r[1] + plen + (IF r[2] THEN TAGLEN ELSE 0)
FixedStructLen(st) == MsgStructLen(st, 0)      \* the shortest message of this step a reader can be given

(* ---- WriteMessage ----------------------------------------------------- *)
WRes(st, idx, fields, cause) == [st |-> st, idx |-> idx, fields |-> fields, cause |-> cause]

RECURSIVE WToks(_, _, _, _, _)
WToks(st, toks, idx, fields, buflen) ==
  IF toks = <<>> THEN WRes(st, idx, fields, "none")
  ELSE
  LET t == Head(toks) rest == Tail(toks) publen == st.pp.publen IN
  CASE t = "e" ->
        IF idx + publen > buflen THEN WRes(st, idx, fields, "W_BUF_E")
        ELSE LET ekey == IF st.fixed_e THEN st.e ELSE Rand(st.id, st.rng, 32)
                 ss1  == MixHash(st.ss, Pub(ekey))
                 ss2  == IF IsPsk(st.pp.psks) THEN MixKey(ss1, Pub(ekey)) ELSE ss1
                 st1  == [st EXCEPT !.e = ekey, !.e_on = TRUE, !.ss = ss2,
                                    !.rng = IF st.fixed_e THEN @ ELSE @ + 1]
             IN WToks(st1, rest, idx + publen, Append(fields, Pub(ekey)), buflen)
    [] t = "s" ->
        IF ~st.s_on THEN WRes(st, idx, fields, "W_NO_S")
        ELSE IF idx + publen + (IF st.ss.hk THEN TAGLEN ELSE 0) > buflen
             THEN WRes(st, idx, fields, "W_BUF_S")
        ELSE LET r == EncryptAndHash(st.ss, Pub(st.s))
             IN WToks([st EXCEPT !.ss = r.ss], rest, idx + FLen(st, r.out),
                      Append(fields, r.out), buflen)
    [] t \in PskTokens ->
        IF st.psk[PskIdx(t)] = None THEN WRes(st, idx, fields, "W_NO_PSK")
        ELSE WToks([st EXCEPT !.ss = MixKeyAndHash(st.ss, st.psk[PskIdx(t)])],
                   rest, idx, fields, buflen)
    [] t \in DhTokens ->
        LET d == DhStep(st, t) IN
        IF d.cause # "none" THEN WRes(st, idx, fields, "W_" \o d.cause)
        ELSE WToks([st EXCEPT !.ss = d.ss], rest, idx, fields, buflen)
    [] t = "e1" ->       \* hfs: a fresh KEM key pair; its public key goes through EncryptAndHash
        IF idx + KEMPUBLEN + (IF st.ss.hk THEN TAGLEN ELSE 0) > buflen THEN WRes(st, idx, fields, "W_BUF_E1")
        ELSE LET sk == KemSk(st.id, st.kgen)
                 r  == EncryptAndHash(st.ss, KemPub(sk))
             IN WToks([st EXCEPT !.kem = sk, !.kgen = @ + 1, !.ss = r.ss], rest, idx + FLen(st, r.out),
                      Append(fields, r.out), buflen)
    [] t = "ekem1" ->    \* hfs: encapsulate to the peer's KEM key; ciphertext through EncryptAndHash, secret into MixKey
        IF idx + KEMCTLEN + (IF st.ss.hk THEN TAGLEN ELSE 0) > buflen THEN WRes(st, idx, fields, "W_BUF_EKEM")
        ELSE LET ct == KemCt(st.kem_re, st.id, st.kenc)
                 sec == KemSs(st.kem_re, st.id, st.kenc)
                 r  == EncryptAndHash(st.ss, ct)
             IN WToks([st EXCEPT !.kenc = @ + 1, !.ss = MixKey(r.ss, sec)], rest, idx + FLen(st, r.out),
                      Append(fields, r.out), buflen)

(* WriteMessage(st, payload, buflen):                                      *)
(*   cause = "none"   : success; st is the new state                       *)
(*   cause = "W_SLACK": the message fits, but snow wants TAGLEN spare      *)
(*                      bytes even when no tag is written; BOTH outcomes   *)
(*                      are allowed by the property (ok is returned in     *)
(*                      okst/len as if it succeeded)                       *)
(*   otherwise        : failure; st is the PARTIAL state at the failure    *)
(*                      point (what had been done when the error arose)    *)
WriteMessage(st, payload, buflen) ==
  IF ~st.turn \/ Finished(st)
  THEN [st |-> st, cause |-> (IF ~st.turn /\ Finished(st) THEN "W_TURN_FINISHED"
                              ELSE IF ~st.turn THEN "W_TURN" ELSE "W_FINISHED"),
        fields |-> <<>>, pfields |-> <<>>, len |-> 0, okst |-> st, enc |-> FALSE]
  ELSE
  LET w    == WToks(st, CurTokens(st), 0, <<>>, buflen)
      st1  == w.st
      plen == FLen(st, payload)
      hk   == st1.ss.hk
      need == w.idx + plen + (IF hk THEN TAGLEN ELSE 0)
      r    == EncryptAndHash(st1.ss, payload)
      flds == IF ~hk /\ plen = 0 THEN w.fields ELSE Append(w.fields, r.out)
      last == st.pos + 1 = NMsgs(st)
      sp   == Split(r.ss)
      st2  == [st1 EXCEPT !.ss = r.ss, !.pos = @ + 1, !.turn = FALSE,
                          !.c1 = IF last THEN sp.c1 ELSE @,
                          !.c2 = IF last THEN sp.c2 ELSE @]
      \* pfields: fields produced (and therefore encryptions performed) before a failure
      fail(pstate, cz, pf) == [st |-> pstate, cause |-> cz, fields |-> <<>>, pfields |-> pf,
                               len |-> 0, okst |-> pstate, enc |-> FALSE]
  IN
  IF w.cause # "none" THEN fail(st1, w.cause, w.fields)
  ELSE IF need > buflen THEN fail(st1, "W_BUF_PAYLOAD", w.fields)
  ELSE IF need > MAXMSG THEN fail(st1, "W_MAXLEN", w.fields)   \* refused BEFORE the payload is encrypted (C06)
  ELSE IF ~hk /\ w.idx + plen + TAGLEN > buflen
       THEN [st |-> st1, cause |-> "W_SLACK", fields |-> flds, pfields |-> w.fields, len |-> need, okst |-> st2, enc |-> hk]
  ELSE [st |-> st2, cause |-> "none", fields |-> flds, pfields |-> flds, len |-> need, okst |-> st2, enc |-> hk]

(* ---- ReadMessage ------------------------------------------------------ *)
RRes(st, off, cause) == [st |-> st, off |-> off, cause |-> cause]

RECURSIVE RToks(_, _, _, _, _)
RToks(st, toks, off, msg, msglen) ==
  IF toks = <<>> THEN RRes(st, off, "none")
  ELSE
  LET t == Head(toks) rest == Tail(toks) publen == st.pp.publen
      take(len) == TakeBytes(msg, off, len, st.pp.publen) IN
  CASE t = "e" ->
        IF msglen - off < publen THEN RRes(st, off, "R_SHORT_E")
        ELSE LET re  == take(publen)
                 ss1 == MixHash(st.ss, re)
                 ss2 == IF IsPsk(st.pp.psks) THEN MixKey(ss1, re) ELSE ss1
             IN RToks([st EXCEPT !.re = re, !.re_on = TRUE, !.ss = ss2], rest, off + publen, msg, msglen)
    [] t = "s" ->
        LET need == publen + (IF st.ss.hk THEN TAGLEN ELSE 0) IN
        IF msglen - off < need THEN RRes(st, off, "R_SHORT_S")
        ELSE LET r == DecryptAndHash(st.ss, take(need)) IN
             IF ~r.ok THEN RRes(st, off, "R_AUTH_S")
             ELSE RToks([st EXCEPT !.rs = r.pt, !.rs_on = TRUE, !.ss = r.ss], rest, off + need, msg, msglen)
    [] t \in PskTokens ->
        IF st.psk[PskIdx(t)] = None THEN RRes(st, off, "R_NO_PSK")
        ELSE RToks([st EXCEPT !.ss = MixKeyAndHash(st.ss, st.psk[PskIdx(t)])], rest, off, msg, msglen)
    [] t \in DhTokens ->
        LET d == DhStep(st, t) IN
        IF d.cause # "none" THEN RRes(st, off, "R_" \o d.cause)
        ELSE RToks([st EXCEPT !.ss = d.ss], rest, off, msg, msglen)
    [] t = "e1" ->
        LET need == KEMPUBLEN + (IF st.ss.hk THEN TAGLEN ELSE 0) IN
        IF msglen - off < need THEN RRes(st, off, "R_SHORT_E1")
        ELSE LET r == DecryptAndHash(st.ss, take(need)) IN
             IF ~r.ok THEN RRes(st, off, "R_AUTH_E1")
             ELSE RToks([st EXCEPT !.kem_re = r.pt, !.ss = r.ss], rest, off + need, msg, msglen)
    [] t = "ekem1" ->
        LET need == KEMCTLEN + (IF st.ss.hk THEN TAGLEN ELSE 0) IN
        IF msglen - off < need THEN RRes(st, off, "R_SHORT_EKEM")
        ELSE LET r == DecryptAndHash(st.ss, take(need)) IN
             IF ~r.ok THEN RRes(st, off, "R_AUTH_EKEM")
             ELSE RToks([st EXCEPT !.ss = MixKey(r.ss, Decap(r.pt, st.kem))], rest, off + need, msg, msglen)

(* ReadMessage(st, msg, outlen): msg is a sequence of fields              *)
ReadMessage(st, msg, outlen) ==
  LET msglen == MsgLen(st, msg) IN
  IF msglen > MAXMSG \/ st.turn \/ Finished(st)
  THEN [st |-> st, payload |-> None, plen |-> 0,
        cause |-> (IF msglen > MAXMSG /\ ~st.turn /\ ~Finished(st) THEN "R_TOO_LONG"
                   ELSE IF msglen > MAXMSG THEN "R_TOO_LONG_PHASE"
                   ELSE IF st.turn /\ Finished(st) THEN "R_TURN_FINISHED"
                   ELSE IF st.turn THEN "R_TURN" ELSE "R_FINISHED")]
  ELSE
  LET r    == RToks(st, CurTokens(st), 0, msg, msglen)
      st1  == r.st
      rest == msglen - r.off
      hk   == st1.ss.hk
      c    == TakeBytes(msg, r.off, rest, st.pp.publen)
      d    == DecryptAndHash(st1.ss, c)
      plen == IF hk THEN rest - TAGLEN ELSE rest
      last == st.pos + 1 = NMsgs(st)
      sp   == Split(d.ss)
      st2  == [st1 EXCEPT !.ss = d.ss, !.pos = @ + 1, !.turn = TRUE,
                          !.c1 = IF last THEN sp.c1 ELSE @,
                          !.c2 = IF last THEN sp.c2 ELSE @]
      fail(cz) == [st |-> st1, payload |-> None, plen |-> 0, cause |-> cz]
  IN
  IF r.cause # "none" THEN fail(r.cause)
  ELSE IF hk /\ rest < TAGLEN THEN fail("R_SHORT_PAYLOAD")
  ELSE IF outlen < plen THEN fail("R_OUTBUF")
  ELSE IF ~d.ok THEN fail("R_AUTH_PAYLOAD")
  ELSE [st |-> st2, payload |-> d.pt, plen |-> plen, cause |-> "none"]

(* fixed overhead of the next message (everything but the payload), as    *)
(* the writer will produce it, assuming no failure: used for max-fit      *)
Overhead(st) ==
  LET w == WriteMessage(st, Empty, MAXMSG + 100) IN w.len

(* ---- transport objects ------------------------------------------------ *)
(* ts = [role, oneway, c1, c2, rs, rs_on]; c1 = initiator->responder       *)
ToTransport(st) ==
  [role |-> st.role, oneway |-> st.pp.pat \in OneWay, c1 |-> st.c1, c2 |-> st.c2,
   rs |-> st.rs, rs_on |-> st.rs_on, pp |-> st.pp, id |-> st.id]

SendDir(ts) == IF ts.role = "i" THEN "c1" ELSE "c2"
RecvDir(ts) == IF ts.role = "i" THEN "c2" ELSE "c1"
CS(ts, d)   == IF d = "c1" THEN ts.c1 ELSE ts.c2
WithCS(ts, d, cs) == IF d = "c1" THEN [ts EXCEPT !.c1 = cs] ELSE [ts EXCEPT !.c2 = cs]

(* set of causes that hold for a transport write; empty = success *)
TWriteCauses(ts, plen, buflen, n) ==
     (IF ts.oneway /\ ts.role = "r" THEN {"T_ONEWAY"} ELSE {})
  \cup (IF plen + TAGLEN > MAXMSG THEN {"T_W_MAXLEN"} ELSE {})
  \cup (IF plen + TAGLEN > buflen THEN {"T_W_BUF"} ELSE {})
  \cup (IF NIsMax(n) THEN {"T_EXHAUSTED"} ELSE {})

(* stateful write: nonce from the sending CipherState, incremented on success *)
TWrite(ts, payload, buflen) ==
  LET d == SendDir(ts) cs == CS(ts, d)
      plen == TLen(payload, ts.pp.publen)
      cz == TWriteCauses(ts, plen, buflen, cs.n) IN
  IF cz # {} THEN [ts |-> ts, causes |-> cz, out |-> None, len |-> 0]
  ELSE [ts |-> WithCS(ts, d, [cs EXCEPT !.n = NInc(cs.n)]), causes |-> {},
        out |-> Aead(cs.k, cs.n, Empty, payload), len |-> plen + TAGLEN]

(* stateless write: explicit nonce, state never changes *)
SWrite(ts, n, payload, buflen) ==
  LET cs == CS(ts, SendDir(ts))
      plen == TLen(payload, ts.pp.publen)
      cz == TWriteCauses(ts, plen, buflen, n) IN
  IF cz # {} THEN [causes |-> cz, out |-> None, len |-> 0]
  ELSE [causes |-> {}, out |-> Aead(cs.k, n, Empty, payload), len |-> plen + TAGLEN]

TReadCauses(ts, msg, outlen, n, k) ==
  LET msglen == SumLen(msg, ts.pp.publen)
      c == TakeBytes(msg, 0, msglen, ts.pp.publen) IN
     (IF msglen > MAXMSG THEN {"T_R_TOO_LONG"} ELSE {})
  \cup (IF ts.oneway /\ ts.role = "i" THEN {"T_ONEWAY"} ELSE {})
  \cup (IF msglen < TAGLEN THEN {"T_R_SHORT"} ELSE {})
  \cup (IF msglen >= TAGLEN /\ outlen < msglen - TAGLEN THEN {"T_R_OUTBUF"} ELSE {})
  \cup (IF NIsMax(n) THEN {"T_EXHAUSTED"} ELSE {})
  \* the cipher is consulted only for a call that is in phase and has a usable nonce: an out-of-phase or
  \* exhausted call fails with its documented state error, whatever the message (C09, C11)
  \cup (IF msglen >= TAGLEN /\ ~(ts.oneway /\ ts.role = "i") /\ ~NIsMax(n) /\ ~AeadOpens(k, n, Empty, c)
        THEN {"T_R_AUTH"} ELSE {})

TRead(ts, msg, outlen) ==
  LET d == RecvDir(ts) cs == CS(ts, d)
      msglen == SumLen(msg, ts.pp.publen)
      c == TakeBytes(msg, 0, msglen, ts.pp.publen)
      cz == TReadCauses(ts, msg, outlen, cs.n, cs.k) IN
  IF cz # {} THEN [ts |-> ts, causes |-> cz, payload |-> None, plen |-> 0]
  ELSE [ts |-> WithCS(ts, d, [cs EXCEPT !.n = NInc(cs.n)]), causes |-> {},
        payload |-> AeadPlain(c), plen |-> msglen - TAGLEN]

SRead(ts, n, msg, outlen) ==
  LET cs == CS(ts, RecvDir(ts))
      msglen == SumLen(msg, ts.pp.publen)
      c == TakeBytes(msg, 0, msglen, ts.pp.publen)
      cz == TReadCauses(ts, msg, outlen, n, cs.k) IN
  IF cz # {} THEN [causes |-> cz, payload |-> None, plen |-> 0]
  ELSE [causes |-> {}, payload |-> AeadPlain(c), plen |-> msglen - TAGLEN]

(* rekey (Noise 4.2 / 11.3): key replaced, nonce untouched *)
RekeyDir(ts, d)          == WithCS(ts, d, [CS(ts, d) EXCEPT !.k = Rekey(@)])
RekeyOutgoing(ts)        == RekeyDir(ts, SendDir(ts))
RekeyIncoming(ts)        == RekeyDir(ts, RecvDir(ts))
RekeyManually(ts, d, key)== WithCS(ts, d, [CS(ts, d) EXCEPT !.k = key])
SetRecvNonce(ts, n)      == WithCS(ts, RecvDir(ts), [CS(ts, RecvDir(ts)) EXCEPT !.n = n])
SetSendNonce(ts, n)      == WithCS(ts, SendDir(ts), [CS(ts, SendDir(ts)) EXCEPT !.n = n])   \* verif hook only

(* ---- allowed error kinds per cause (DESIGN Appendix A) ----------------- *)
(* "*" = any error (the property does not pin the kind)                   *)
KindsOf(cause) ==
  CASE cause = "W_TURN"           -> {"State(NotTurnToWrite)"}
    [] cause = "W_FINISHED"       -> {"State(HandshakeAlreadyFinished)"}
    [] cause = "W_TURN_FINISHED"  -> {"State(NotTurnToWrite)", "State(HandshakeAlreadyFinished)"}
    [] cause = "W_BUF_E"          -> {"Input"}
    [] cause = "W_BUF_S"          -> {"Input"}
    [] cause = "W_BUF_E1"         -> {"Input"}
    [] cause = "W_BUF_EKEM"       -> {"Input"}
    [] cause = "W_NO_S"           -> {"State(MissingKeyMaterial)"}
    [] cause = "W_NO_PSK"         -> {"State(MissingPsk)"}
    [] cause = "W_NO_KEY_DH"      -> {"State(MissingKeyMaterial)"}
    [] cause = "W_DH_INVALID"     -> {"Dh"}
    [] cause = "W_BUF_PAYLOAD"    -> {"Input"}
    [] cause = "W_MAXLEN"         -> {"Input"}
    [] cause = "W_SLACK"          -> {"Input"}
    [] cause = "R_TOO_LONG"       -> {"Input"}
    [] cause = "R_TOO_LONG_PHASE" -> {"State(NotTurnToRead)", "State(HandshakeAlreadyFinished)"}   \* out of phase: the state error (C11)
    [] cause = "R_TURN"           -> {"State(NotTurnToRead)"}
    [] cause = "R_FINISHED"       -> {"State(HandshakeAlreadyFinished)"}
    [] cause = "R_TURN_FINISHED"  -> {"State(NotTurnToRead)", "State(HandshakeAlreadyFinished)"}
    [] cause = "R_NO_PSK"         -> {"State(MissingPsk)"}
    [] cause = "R_NO_KEY_DH"      -> {"State(MissingKeyMaterial)"}
    [] cause = "R_DH_INVALID"     -> {"Dh"}
    [] cause = "T_ONEWAY"         -> {"State(OneWay)"}
    [] cause = "T_W_MAXLEN"       -> {"Input"}
    [] cause = "T_W_BUF"          -> {"Input"}
    [] cause = "T_EXHAUSTED"      -> {"State(Exhausted)"}
    [] cause = "T_R_TOO_LONG"     -> {"Input"}
    [] cause = "C_NOT_FINISHED"   -> {"State(HandshakeNotFinished)"}
    [] OTHER                      -> {"*"}     \* R_SHORT_*, R_AUTH_*, R_OUTBUF, T_R_SHORT, T_R_OUTBUF, T_R_AUTH

(* several conditions may hold at once; any of their kinds is then allowed (a re-ordering of guards among  *)
(* input-validation conditions is not a property violation) - EXCEPT that an out-of-phase call always gets *)
(* the documented state error (C11: "every out-of-phase call returns the documented state error")         *)
KindsOfSet(causes) ==
  IF "T_ONEWAY" \in causes THEN KindsOf("T_ONEWAY")
  ELSE UNION { KindsOf(c) : c \in causes }
=============================================================================
