-------------------------- MODULE NoisePatterns --------------------------
(***************************************************************************)
(* The 38 handshake patterns of Noise rev 34 (7.4 one-way, 7.5            *)
(* fundamental, 7.6 deferred), transcribed from the specification text,   *)
(* the pskN modifier (9.3-9.4), and everything that is DERIVED from the   *)
(* token lists: message count, one-way set, which static keys a role      *)
(* needs, validity rules of 7.3 (checked on the table itself).            *)
(***************************************************************************)
EXTENDS Naturals, Sequences, FiniteSets, TLC

(* tokens are strings: "e" "s" "ee" "es" "se" "ss" "psk0".."psk4"        *)
DhTokens  == {"ee", "es", "se", "ss"}
PskTokens == {"psk0", "psk1", "psk2", "psk3", "psk4"}
PskTok(n) == CASE n = 0 -> "psk0" [] n = 1 -> "psk1" [] n = 2 -> "psk2"
               [] n = 3 -> "psk3" [] n = 4 -> "psk4"
PskIdx(t) == CASE t = "psk0" -> 0 [] t = "psk1" -> 1 [] t = "psk2" -> 2
               [] t = "psk3" -> 3 [] t = "psk4" -> 4

P(prei, prer, msgs) == [pre_i |-> prei, pre_r |-> prer, msgs |-> msgs]

(* message k (1-based) is written by the initiator iff k is odd *)
PatternTable ==
     "N"    :> P(<<>>,      <<"s">>, << <<"e","es">> >>)
  @@ "K"    :> P(<<"s">>,   <<"s">>, << <<"e","es","ss">> >>)
  @@ "X"    :> P(<<>>,      <<"s">>, << <<"e","es","s","ss">> >>)
  @@ "NN"   :> P(<<>>,      <<>>,    << <<"e">>, <<"e","ee">> >>)
  @@ "NK"   :> P(<<>>,      <<"s">>, << <<"e","es">>, <<"e","ee">> >>)
  @@ "NX"   :> P(<<>>,      <<>>,    << <<"e">>, <<"e","ee","s","es">> >>)
  @@ "XN"   :> P(<<>>,      <<>>,    << <<"e">>, <<"e","ee">>, <<"s","se">> >>)
  @@ "XK"   :> P(<<>>,      <<"s">>, << <<"e","es">>, <<"e","ee">>, <<"s","se">> >>)
  @@ "XX"   :> P(<<>>,      <<>>,    << <<"e">>, <<"e","ee","s","es">>, <<"s","se">> >>)
  @@ "KN"   :> P(<<"s">>,   <<>>,    << <<"e">>, <<"e","ee","se">> >>)
  @@ "KK"   :> P(<<"s">>,   <<"s">>, << <<"e","es","ss">>, <<"e","ee","se">> >>)
  @@ "KX"   :> P(<<"s">>,   <<>>,    << <<"e">>, <<"e","ee","se","s","es">> >>)
  @@ "IN"   :> P(<<>>,      <<>>,    << <<"e","s">>, <<"e","ee","se">> >>)
  @@ "IK"   :> P(<<>>,      <<"s">>, << <<"e","es","s","ss">>, <<"e","ee","se">> >>)
  @@ "IX"   :> P(<<>>,      <<>>,    << <<"e","s">>, <<"e","ee","se","s","es">> >>)
  @@ "NK1"  :> P(<<>>,      <<"s">>, << <<"e">>, <<"e","ee","es">> >>)
  @@ "NX1"  :> P(<<>>,      <<>>,    << <<"e">>, <<"e","ee","s">>, <<"es">> >>)
  @@ "X1N"  :> P(<<>>,      <<>>,    << <<"e">>, <<"e","ee">>, <<"s">>, <<"se">> >>)
  @@ "X1K"  :> P(<<>>,      <<"s">>, << <<"e","es">>, <<"e","ee">>, <<"s">>, <<"se">> >>)
  @@ "XK1"  :> P(<<>>,      <<"s">>, << <<"e">>, <<"e","ee","es">>, <<"s","se">> >>)
  @@ "X1K1" :> P(<<>>,      <<"s">>, << <<"e">>, <<"e","ee","es">>, <<"s">>, <<"se">> >>)
  @@ "X1X"  :> P(<<>>,      <<>>,    << <<"e">>, <<"e","ee","s","es">>, <<"s">>, <<"se">> >>)
  @@ "XX1"  :> P(<<>>,      <<>>,    << <<"e">>, <<"e","ee","s">>, <<"es","s","se">> >>)
  @@ "X1X1" :> P(<<>>,      <<>>,    << <<"e">>, <<"e","ee","s">>, <<"es","s">>, <<"se">> >>)
  @@ "K1N"  :> P(<<"s">>,   <<>>,    << <<"e">>, <<"e","ee">>, <<"se">> >>)
  @@ "K1K"  :> P(<<"s">>,   <<"s">>, << <<"e","es">>, <<"e","ee">>, <<"se">> >>)
  @@ "KK1"  :> P(<<"s">>,   <<"s">>, << <<"e">>, <<"e","ee","se","es">> >>)
  @@ "K1K1" :> P(<<"s">>,   <<"s">>, << <<"e">>, <<"e","ee","es">>, <<"se">> >>)
  @@ "K1X"  :> P(<<"s">>,   <<>>,    << <<"e">>, <<"e","ee","s","es">>, <<"se">> >>)
  @@ "KX1"  :> P(<<"s">>,   <<>>,    << <<"e">>, <<"e","ee","se","s">>, <<"es">> >>)
  @@ "K1X1" :> P(<<"s">>,   <<>>,    << <<"e">>, <<"e","ee","s">>, <<"se","es">> >>)
  @@ "I1N"  :> P(<<>>,      <<>>,    << <<"e","s">>, <<"e","ee">>, <<"se">> >>)
  @@ "I1K"  :> P(<<>>,      <<"s">>, << <<"e","es","s">>, <<"e","ee">>, <<"se">> >>)
  @@ "IK1"  :> P(<<>>,      <<"s">>, << <<"e","s">>, <<"e","ee","se","es">> >>)
  @@ "I1K1" :> P(<<>>,      <<"s">>, << <<"e","s">>, <<"e","ee","es">>, <<"se">> >>)
  @@ "I1X"  :> P(<<>>,      <<>>,    << <<"e","s">>, <<"e","ee","s","es">>, <<"se">> >>)
  @@ "IX1"  :> P(<<>>,      <<>>,    << <<"e","s">>, <<"e","ee","se","s">>, <<"es">> >>)
  @@ "I1X1" :> P(<<>>,      <<>>,    << <<"e","s">>, <<"e","ee","s">>, <<"se","es">> >>)

PatternNames == DOMAIN PatternTable
OneWay       == {"N", "K", "X"}
NumMsgs(p)   == Len(PatternTable[p].msgs)

(* pattern names in a fixed order, for deterministic enumeration *)
PatternSeq == <<"N","K","X","NN","NK","NX","XN","XK","XX","KN","KK","KX","IN","IK","IX",
                "NK1","NX1","X1N","X1K","XK1","X1K1","X1X","XX1","X1X1","K1N","K1K","KK1",
                "K1K1","K1X","KX1","K1X1","I1N","I1K","IK1","I1K1","I1X","IX1","I1X1">>

(* ---- psk modifiers (Noise 9.3): psk0 -> front of message 1,            *)
(*      pskN -> end of message N.  `psks` is a set of indices.            *)
ValidPskSet(p, psks) == \A n \in psks : n <= NumMsgs(p)

MsgTokens(p, psks, k) ==      \* tokens of message k (1-based) of pattern p with psk set
  LET base == PatternTable[p].msgs[k]
      front == IF k = 1 /\ 0 \in psks THEN <<"psk0">> ELSE <<>>
      back  == IF k \in psks THEN <<PskTok(k)>> ELSE <<>>
  IN front \o base \o back

(* ---- the hfs modifier (Noise HFS extension, section 5; interactive patterns only): *)
(*   "e1" directly after the first DH token of the first message that holds   *)
(*   an "e" (so that it is encrypted), or directly after that "e" if the      *)
(*   message has no DH token; "ekem1" directly after the first "ee".          *)
MinS(S) == CHOOSE x \in S : \A y \in S : x <= y
IdxSet(toks, T) == { i \in 1..Len(toks) : toks[i] \in T }
InsertAfter(seq, i, x) == SubSeq(seq, 1, i) \o <<x>> \o SubSeq(seq, i + 1, Len(seq))
FirstMsgWith(p, tok) ==
  LET S == { k \in 1..NumMsgs(p) : IdxSet(PatternTable[p].msgs[k], {tok}) # {} } IN
  IF S = {} THEN 0 ELSE MinS(S)
HfsBase(p, k) ==
  LET base == PatternTable[p].msgs[k]
      w1 == IF k = FirstMsgWith(p, "e")
            THEN InsertAfter(base, IF IdxSet(base, DhTokens) # {} THEN MinS(IdxSet(base, DhTokens))
                                   ELSE MinS(IdxSet(base, {"e"})), "e1")
            ELSE base
  IN IF k = FirstMsgWith(p, "ee") THEN InsertAfter(w1, MinS(IdxSet(w1, {"ee"})), "ekem1") ELSE w1
HfsApplies(p) == p \notin OneWay

MsgTokensH(p, psks, hfs, k) ==
  LET base == IF hfs THEN HfsBase(p, k) ELSE PatternTable[p].msgs[k]
      front == IF k = 1 /\ 0 \in psks THEN <<"psk0">> ELSE <<>>
      back  == IF k \in psks THEN <<PskTok(k)>> ELSE <<>>
  IN front \o base \o back

IsPsk(psks) == psks # {}

(* A choice = pattern + psk set *)
Choices == { c \in [pat : PatternNames, psks : SUBSET (0..4)] : ValidPskSet(c.pat, c.psks) }

(* ---- derived prerequisites (used by C12; independent of snow's tables) *)
SeqToSet(s) == { s[i] : i \in 1..Len(s) }
WrittenBy(p, role) ==         \* set of tokens in messages written by role
  UNION { SeqToSet(PatternTable[p].msgs[k]) :
            k \in { j \in 1..NumMsgs(p) : (j % 2 = 1) = (role = "i") } }
AllTokens(p) == UNION { SeqToSet(PatternTable[p].msgs[k]) : k \in 1..NumMsgs(p) }
OwnPre(p, role)  == IF role = "i" THEN PatternTable[p].pre_i ELSE PatternTable[p].pre_r
PeerPre(p, role) == IF role = "i" THEN PatternTable[p].pre_r ELSE PatternTable[p].pre_i

(* a role needs a local static key iff its own static key occurs in the   *)
(* pattern: in its own pre-message or as an "s" token it writes           *)
NeedsLocalStatic(p, role)  == "s" \in SeqToSet(OwnPre(p, role)) \/ "s" \in WrittenBy(p, role)
(* ... and the peer's static key beforehand iff the pattern pre-shares it *)
NeedsRemoteStatic(p, role) == "s" \in SeqToSet(PeerPre(p, role))
(* the peer's static key is ever conveyed to `role` (pre-shared or sent)  *)
LearnsRemoteStatic(p, role) ==
  NeedsRemoteStatic(p, role) \/ "s" \in WrittenBy(p, IF role = "i" THEN "r" ELSE "i")

(* ---- validity of the table itself (Noise 7.3), checked by TLC -------- *)
RECURSIVE Flatten(_)
Flatten(ss) == IF ss = <<>> THEN <<>> ELSE Head(ss) \o Flatten(Tail(ss))

(* position (message, index) pairs flattened: token list with writer role *)
TokRole(p) == Flatten([k \in 1..NumMsgs(p) |->
                 [j \in 1..Len(PatternTable[p].msgs[k]) |->
                    <<PatternTable[p].msgs[k][j], IF k % 2 = 1 THEN "i" ELSE "r">>]])

CountTok(p, tok, role) == Cardinality({ i \in 1..Len(TokRole(p)) : TokRole(p)[i] = <<tok, role>> })

TableValid ==
  \A p \in PatternNames :
    LET tr == TokRole(p)
        pre(role) == SeqToSet(OwnPre(p, role))
        \* key `key` of `role` is known to the peer / held by role before flattened position i
        Has(role, key, i) == key \in pre(role) \/ \E j \in 1..(i-1) : tr[j] = <<key, role>>
    IN
    /\ NumMsgs(p) \in 1..4
    /\ (p \in OneWay) = (NumMsgs(p) = 1)
    \* 7.3.1/2: each party sends each public key at most once, and not if pre-shared
    /\ \A role \in {"i","r"} : \A key \in {"e","s"} :
         CountTok(p, key, role) + (IF key \in pre(role) THEN 1 ELSE 0) <= 1
    \* every DH token occurs at most once
    /\ \A d \in DhTokens : Cardinality({ i \in 1..Len(tr) : tr[i][1] = d }) <= 1
    \* 7.3.1: a DH is only performed between keys both parties already have
    /\ \A i \in 1..Len(tr) :
         LET t == tr[i][1] IN
         /\ (t = "ee" => Has("i","e",i) /\ Has("r","e",i))
         /\ (t = "es" => Has("i","e",i) /\ Has("r","s",i))
         /\ (t = "se" => Has("i","s",i) /\ Has("r","e",i))
         /\ (t = "ss" => Has("i","s",i) /\ Has("r","s",i))
    \* 7.3.4: after "se" the initiator must not send a payload unless "ee" happened; etc.
    \*        (initiator: se => ee, ss => es ; responder: es => ee, ss => se) by end of that message
    /\ \A k \in 1..NumMsgs(p) :
         LET upto == UNION { SeqToSet(PatternTable[p].msgs[j]) : j \in 1..k }
             wr   == IF k % 2 = 1 THEN "i" ELSE "r" IN
         /\ (wr = "i" /\ "se" \in upto => "ee" \in upto)
         /\ (wr = "i" /\ "ss" \in upto => "es" \in upto)
         /\ (wr = "r" /\ "es" \in upto => "ee" \in upto)
         /\ (wr = "r" /\ "ss" \in upto => "se" \in upto)
    \* first message of every pattern starts with "e" (so psk patterns always key on e)
    /\ PatternTable[p].msgs[1][1] = "e"
=============================================================================
