--------------------------- MODULE NoiseTerms ---------------------------
(***************************************************************************)
(* Symbolic term algebra for the Noise Protocol Framework (rev 34).        *)
(*                                                                         *)
(* Every value that is not a small integer is a TERM: a tuple whose first  *)
(* element is a tag string with fixed arity and position-consistent sorts  *)
(* (TLC cannot compare a string with a tuple).  The only cryptographic     *)
(* assumptions of the whole specification are the laws stated here:        *)
(*   - distinct terms denote distinct byte strings (free algebra),         *)
(*   - DH is commutative (the two private keys are kept as a SET),         *)
(*   - DECRYPT(k,n,ad,c) succeeds iff c = <<"aead",k,n,ad,pt>> (AeadOpen), *)
(*   - "alt"/"cut"/"mis" terms never equal a genuine term.                 *)
(* The Rust evaluator (harness/src/eval.rs) is a homomorphism from these   *)
(* terms to bytes over primitives that do not go through snow.             *)
(***************************************************************************)
EXTENDS Naturals, Sequences, FiniteSets

TAGLEN  == 16
KEYLEN  == 32      \* cipher key / psk length
DHLEN   == 32      \* shared-secret length of both supported curves
MAXMSG  == 65535

None    == <<"none">>                       \* "no value" with a term-like shape
IsNone(t) == t = None

(* ---- constructors ---------------------------------------------------- *)
Atom(name, len)      == <<"a", name, len>>          \* long-term private key, psk, prologue, name
Empty                == <<"lit", "", 0>>            \* the empty byte string (canonical)
Lit(id, len)         == IF len = 0 THEN Empty ELSE <<"lit", id, len>>  \* caller-chosen bytes named by id
Rand(ep, k, len)     == <<"rand", ep, k, len>>      \* k-th draw of endpoint ep's random source
Pub(t)               == <<"pub", t>>                \* public key of private key t
Hash(seq)            == <<"h", seq>>                \* HASH(concatenation of seq)
Pad(t)               == <<"pad", t>>                \* t followed by zero bytes up to HASHLEN bytes
Kdf(ck, ikm, i)      == <<"kdf", ck, ikm, i>>       \* i-th output of Noise HKDF(ck, ikm)
Trunc(t, n)          == <<"trunc", t, n>>           \* first n bytes of t
Aead(k, n, ad, pt)   == <<"aead", k, n, ad, pt>>    \* ENCRYPT(k, n, ad, pt)
Rekey(k)             == <<"rekey", k>>              \* REKEY(k), Noise 4.2
Alt(t, kind)         == <<"alt", t, kind>>          \* adversary alteration of t, same length
Cut(t, keep)         == <<"cut", t, keep>>          \* first keep bytes of field t (truncation inside a field)
Mis(fields, off, len)== <<"mis", fields, off, len>> \* bytes off..off+len-1 of a message, not one whole field

(* DH(priv, pubterm): commutative on genuine public keys. *)
DH(priv, pubterm) ==
  IF pubterm[1] = "pub" THEN <<"dh", {priv, pubterm[2]}>>
  ELSE <<"dhx", priv, pubterm>>

Tag(t) == t[1]

(* ---- byte lengths ---------------------------------------------------- *)
(* publen is a parameter of the protocol instance.  Hash-sized terms ("h", *)
(* "kdf", "pad") never travel in a message, so they have no case here and  *)
(* TLC reports an error if the model ever asks for their length.           *)
RECURSIVE TLen(_, _)
TLen(t, publen) ==
  CASE t[1] = "a"     -> t[3]
    [] t[1] = "lit"   -> t[3]
    [] t[1] = "rand"  -> t[4]
    [] t[1] = "pub"   -> publen
    [] t[1] = "dh"    -> DHLEN
    [] t[1] = "dhx"   -> DHLEN
    [] t[1] = "trunc" -> t[3]
    [] t[1] = "aead"  -> TLen(t[5], publen) + TAGLEN
    [] t[1] = "rekey" -> KEYLEN
    [] t[1] = "alt"   -> TLen(t[2], publen)
    [] t[1] = "cut"   -> t[3]
    [] t[1] = "mis"   -> t[4]
    [] t[1] = "none"  -> 0

RECURSIVE SumLen(_, _)
SumLen(fields, publen) ==
  IF fields = <<>> THEN 0
  ELSE TLen(Head(fields), publen) + SumLen(Tail(fields), publen)

(* ---- the AEAD law ---------------------------------------------------- *)
(* DECRYPT(k, n, ad, c) succeeds iff c was produced by ENCRYPT under the  *)
(* very same key, nonce and associated data.                              *)
AeadOpens(k, n, ad, c) ==
  /\ c[1] = "aead"
  /\ c[2] = k
  /\ c[3] = n
  /\ c[4] = ad
AeadPlain(c) == c[5]

(* ---- what is at stake when a message is rejected (C19) ------------------ *)
(* the plaintexts that a decryption of the (possibly altered or cut) fields  *)
(* of a message would reveal: none of them may reach the caller's buffer     *)
RECURSIVE PlainOf(_)
PlainOf(f) ==
  CASE f[1] = "aead" -> {f[5]}
    [] f[1] = "alt"  -> PlainOf(f[2])
    [] f[1] = "cut"  -> PlainOf(f[2])
    [] OTHER         -> {}
LeakSet(msg) == UNION { PlainOf(msg[i]) : i \in 1..Len(msg) }

(* ---- reading bytes out of a message ---------------------------------- *)
(* A message is a sequence of fields.  The reader parses by ITS OWN       *)
(* expectation: it asks for `len` bytes at offset `off`.  If exactly one  *)
(* whole field sits there it gets that field, otherwise a "mis" term.     *)
RECURSIVE FieldAt(_, _, _, _)
FieldAt(fields, off, len, publen) ==
  IF fields = <<>> THEN None
  ELSE LET f == Head(fields) fl == TLen(f, publen) IN
       IF off = 0 THEN (IF fl = len THEN f ELSE None)
       ELSE IF off < fl THEN None
       ELSE FieldAt(Tail(fields), off - fl, len, publen)

TakeBytes(fields, off, len, publen) ==
  IF len = 0 THEN Empty
  ELSE LET f == FieldAt(fields, off, len, publen) IN
       IF f # None THEN f ELSE Mis(fields, off, len)
=============================================================================
