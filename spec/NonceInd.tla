----------------------------- MODULE NonceInd -----------------------------
(***************************************************************************)
(* The counter logic of a CipherState (NoiseObjects: TWrite / TRead /       *)
(* SetRecvNonce) over the integers, for an ARBITRARY reserved value MAXN    *)
(* (2^64-1 in the code, 3..4 in the bounded TLC configurations): an        *)
(* inductive invariant, discharged by Apalache, shows for every MAXN > 0   *)
(* that the counter never passes MAXN (no wrap) and that MAXN is never     *)
(* used to encrypt or decrypt a message (C09), whatever the interleaving   *)
(* of successful operations, failed operations and explicit settings.      *)
(*                                                                         *)
(*   apalache-mc check --cinit=ConstInit --init=Init    --inv=IndInv --length=0 NonceInd.tla                  *)
(*   apalache-mc check --cinit=ConstInit --init=IndInit --inv=IndInv --length=1 NonceInd.tla                  *)
(*   apalache-mc check --cinit=ConstInit --init=IndInit --inv=Safety --length=0 NonceInd.tla                  *)
(***************************************************************************)
EXTENDS Integers

CONSTANTS
  \* @type: Int;
  MAXN,
  \* @type: Bool;
  Guarded      \* FALSE switches the nonce guard off (self-test: the invariant must then fail)

VARIABLES
  \* @type: Int;
  n,             \* the counter
  \* @type: Bool;
  reservedUsed,  \* history: some message was encrypted/decrypted under nonce MAXN
  \* @type: Bool;
  moved          \* history: the last step changed n other than by +1 on success or by an explicit setting

ConstInit == MAXN \in Int /\ MAXN > 0 /\ Guarded = TRUE
ConstInitBug == MAXN \in Int /\ MAXN > 0 /\ Guarded = FALSE

Init == n = 0 /\ reservedUsed = FALSE /\ moved = FALSE

(* a write, or a read whose authentication succeeds: uses nonce n, then n+1 *)
OpOk ==
  /\ (Guarded => n # MAXN)            \* the guard: validate_nonce
  /\ reservedUsed' = (reservedUsed \/ n = MAXN)
  /\ n' = n + 1
  /\ moved' = FALSE
(* a read whose authentication fails (or any call refused for its lengths): nothing moves *)
OpRejected == n # MAXN /\ UNCHANGED <<n, reservedUsed>> /\ moved' = FALSE
(* the counter sits on the reserved value: every operation fails with Exhausted, nothing moves *)
Exhausted == n = MAXN /\ UNCHANGED <<n, reservedUsed>> /\ moved' = FALSE
(* explicit setting to any value of the domain (set_receiving_nonce; the verification hook) *)
SetTo == \E v \in Int : v >= 0 /\ v <= MAXN /\ n' = v /\ UNCHANGED reservedUsed /\ moved' = FALSE

Next == OpOk \/ OpRejected \/ Exhausted \/ SetTo

IndInv == n >= 0 /\ n <= MAXN /\ ~reservedUsed /\ ~moved
IndInit == n \in Int /\ reservedUsed \in BOOLEAN /\ moved \in BOOLEAN /\ IndInv
Safety == n <= MAXN /\ ~reservedUsed
=============================================================================
