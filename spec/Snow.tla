------------------------------- MODULE Snow -------------------------------
(***************************************************************************)
(* The system specification: endpoints built through snow's public API,    *)
(* one action per public call (atomic at the call's return), the last      *)
(* observation, and history variables for the properties.                  *)
(*                                                                         *)
(*   ep[id]   endpoint: [mode, st]  mode in "none","hs","tr","sl","dead"   *)
(*   hist     sequence of steps = calls with arguments and the expected    *)
(*            observation (what D1 replays and D2 validates)               *)
(*   aeadLog  every (key, nonce, ad, plaintext) passed to ENCRYPT  (C06)   *)
(*                                                                         *)
(* Constant FullRollback selects what a failing handshake call leaves      *)
(* behind: TRUE = nothing (what C07 demands), FALSE = the partial state    *)
(* the pinned code leaves (only h, ck, has_key are restored).              *)
(***************************************************************************)
EXTENDS NoiseObjects, TLC

CONSTANTS FullRollback,
          KeepHist        \* TRUE: hist is the whole history; FALSE (trace validation): only the last step

VARIABLES ep, hist, aeadLog
vars == <<ep, hist, aeadLog>>

Absent  == [mode |-> "none", st |-> <<>>]
Dead    == [mode |-> "dead", st |-> <<>>]
Mode(id)== ep[id].mode
St(id)  == ep[id].st

(* ---- what the public API exposes ------------------------------------- *)
HsObs(st) ==
  [turn |-> st.turn, fin |-> Finished(st), init |-> st.role = "i",
   hh |-> st.ss.h, rs |-> IF st.rs_on THEN st.rs ELSE None]

TrObs(ts, stateful) ==
  [init |-> ts.role = "i", rs |-> IF ts.rs_on THEN ts.rs ELSE None,
   sn |-> IF stateful THEN CS(ts, SendDir(ts)).n ELSE None,
   rn |-> IF stateful THEN CS(ts, RecvDir(ts)).n ELSE None]

ObsOf(e) == CASE e.mode = "hs" -> HsObs(e.st)
              [] e.mode = "tr" -> TrObs(e.st, TRUE)
              [] e.mode = "sl" -> TrObs(e.st, FALSE)
              [] OTHER -> [gone |-> TRUE]

Step(op, id, args, exp) == [op |-> op, ep |-> id, args |-> args, exp |-> exp]
Log(step) == hist' = IF KeepHist THEN Append(hist, step) ELSE <<step>>

(* ---- AEAD operations performed by a call (C06/C09) -------------------- *)
(* encryptions performed when going from symmetric state a to b are read  *)
(* off the produced fields: every "aead" field is one ENCRYPT call.       *)
AeadOps(fields) == { <<f[2], f[3], f[4], f[5]>> : f \in { fields[i] : i \in 1..Len(fields) } \cap
                                                   { g \in { fields[i] : i \in 1..Len(fields) } : g[1] = "aead" } }

(* ---- rollback --------------------------------------------------------- *)
(* old = state before the call, part = partial state at the failure point *)
Rollback(old, part) ==
  IF FullRollback
  THEN [old EXCEPT !.rng = part.rng, !.kgen = part.kgen, !.kenc = part.kenc]   \* RngAdvanceOnFailedWrite: environment, not session
  ELSE [part EXCEPT !.ss.h = old.ss.h, !.ss.ck = old.ss.ck, !.ss.hk = old.ss.hk,
                    !.pos = old.pos, !.turn = old.turn]

(* ---- Build ------------------------------------------------------------ *)
(* cfg = [s, rs, psk, prologue, fixed_e]; prerequisites are DERIVED from  *)
(* the token table (NoisePatterns), not from snow's predicates.           *)
BuildCauses(role, pp, cfg) ==
     (IF cfg.s = None  /\ NeedsLocalStatic(pp.pat, role)  THEN {"B_NO_LOCAL_STATIC"} ELSE {})
  \cup (IF cfg.rs = None /\ NeedsRemoteStatic(pp.pat, role) THEN {"B_NO_REMOTE_STATIC"} ELSE {})
  \cup (IF ~ValidPskSet(pp.pat, pp.psks) THEN {"B_PSK_INDEX"} ELSE {})

BuildKinds(causes) ==
  UNION { CASE c = "B_NO_LOCAL_STATIC"  -> {"Prereq(LocalPrivateKey)"}
            [] c = "B_NO_REMOTE_STATIC" -> {"Prereq(RemotePublicKey)"}
            [] c = "B_PSK_INDEX"        -> {"Pattern(InvalidPsk)"} : c \in causes }

Build(id, role, pp, cfg) ==
  /\ Mode(id) = "none"
  /\ LET cz == BuildCauses(role, pp, cfg) IN
     IF cz = {}
     THEN LET st == Initialize(id, role, pp, cfg) IN
          /\ ep' = [ep EXCEPT ![id] = [mode |-> "hs", st |-> st]]
          /\ Log(Step("build", id, [role |-> role, pp |-> pp, cfg |-> cfg],
                      [res |-> "ok", obs |-> HsObs(st)]))
     ELSE /\ ep' = ep
          /\ Log(Step("build", id, [role |-> role, pp |-> pp, cfg |-> cfg],
                      [res |-> "err", causes |-> cz, kinds |-> BuildKinds(cz)]))
  /\ UNCHANGED aeadLog

(* ---- handshake calls -------------------------------------------------- *)
(* slackfail: when the W_SLACK window applies, the caller of this action  *)
(* chooses which of the two allowed outcomes is explored.                 *)
HsWrite(id, payload, buflen, slackfail) ==
  /\ Mode(id) = "hs"
  /\ LET st == St(id)
         w  == WriteMessage(st, payload, buflen)
         ok == w.cause = "none" \/ (w.cause = "W_SLACK" /\ ~slackfail)
         \* rng: the index of the next draw of this endpoint's random source in the MODEL's numbering; the replay positions
         \* the deterministic source there before the call, so that whether an earlier failed call consumed randomness
         \* (an implementation detail) does not matter - only that THIS write draws its ephemeral (C06)
         args == [payload |-> payload, buf |-> buflen, rng |-> st.rng]
     IN
     IF ok
     THEN /\ ep' = [ep EXCEPT ![id].st = w.okst]
          /\ aeadLog' = aeadLog \cup AeadOps(w.fields)
          /\ Log(Step("hs_write", id, args,
                      [res |-> "ok", len |-> w.len, out |-> w.fields, enc |-> w.enc,
                       slack |-> w.cause = "W_SLACK", obs |-> HsObs(w.okst)]))
     ELSE LET st1 == Rollback(st, w.st) IN
          /\ ep' = [ep EXCEPT ![id].st = st1]
          /\ aeadLog' = aeadLog \cup AeadOps(w.pfields)   \* a failed call has still encrypted what it produced
          /\ Log(Step("hs_write", id, args,
                      [res |-> "err", cause |-> w.cause,
                       \* in phase, a message that cannot fit the buffer or the limit by its structure alone may be
                       \* refused with Input before anything else is looked at
                       kinds |-> KindsOf(w.cause) \cup
                                 (IF st.turn /\ ~Finished(st)
                                     /\ LET l == MsgStructLen(st, FLen(st, payload)) IN l > buflen \/ l > MAXMSG
                                  THEN {"Input"} ELSE {}),
                       slack |-> w.cause = "W_SLACK", obs |-> HsObs(st1)]))

HsRead(id, msg, outlen) ==
  /\ Mode(id) = "hs"
  /\ LET st == St(id)
         r  == ReadMessage(st, msg, outlen)
         args == [msg |-> msg, outlen |-> outlen]
     IN
     IF r.cause = "none"
     THEN /\ ep' = [ep EXCEPT ![id].st = r.st]
          /\ Log(Step("hs_read", id, args,
                      [res |-> "ok", len |-> r.plen, payload |-> r.payload, obs |-> HsObs(r.st)]))
     ELSE LET st1 == Rollback(st, r.st) IN
          /\ ep' = [ep EXCEPT ![id].st = st1]
          /\ Log(Step("hs_read", id, args,
                      [res |-> "err", cause |-> r.cause,
                       \* in phase, a message shorter than the fixed fields of this step may be refused with Input at once
                       kinds |-> KindsOf(r.cause) \cup
                                 (IF ~st.turn /\ ~Finished(st) /\ MsgLen(st, msg) < FixedStructLen(st) THEN {"Input"} ELSE {}),
                       obs |-> HsObs(st1),
                       noleak |-> LeakSet(msg)]))
  /\ UNCHANGED aeadLog

SetPsk(id, loc, key) ==
  /\ Mode(id) = "hs"
  /\ loc \in 0..4
  /\ ep' = [ep EXCEPT ![id].st.psk[loc] = key]
  /\ Log(Step("set_psk", id, [loc |-> loc, key |-> key],
              [res |-> "ok", obs |-> HsObs(St(id))]))
  /\ UNCHANGED aeadLog

(* feature risky-raw-split: the two Split() keys, computable at any time  *)
RawSplit(id) ==
  /\ Mode(id) = "hs"
  /\ LET sp == Split(St(id).ss) IN
     Log(Step("raw_split", id, <<>>, [res |-> "ok", k1 |-> sp.c1.k, k2 |-> sp.c2.k]))
  /\ UNCHANGED <<ep, aeadLog>>

(* conversion consumes the handshake object whatever the outcome          *)
Convert(id, stateful) ==
  /\ Mode(id) = "hs"
  /\ LET st == St(id) op == IF stateful THEN "to_transport" ELSE "to_stateless" IN
     IF Finished(st)
     THEN LET ts == ToTransport(st) IN
          /\ ep' = [ep EXCEPT ![id] = [mode |-> IF stateful THEN "tr" ELSE "sl", st |-> ts]]
          /\ Log(Step(op, id, <<>>, [res |-> "ok", obs |-> TrObs(ts, stateful)]))
     ELSE /\ ep' = [ep EXCEPT ![id] = Dead]
          /\ Log(Step(op, id, <<>>, [res |-> "err", cause |-> "C_NOT_FINISHED",
                                      kinds |-> KindsOf("C_NOT_FINISHED")]))
  /\ UNCHANGED aeadLog

(* ---- stateful transport ----------------------------------------------- *)
TrWrite(id, payload, buflen) ==
  /\ Mode(id) = "tr"
  /\ LET ts == St(id) w == TWrite(ts, payload, buflen)
         args == [payload |-> payload, buf |-> buflen] IN
     IF w.causes = {}
     THEN /\ ep' = [ep EXCEPT ![id].st = w.ts]
          /\ aeadLog' = aeadLog \cup {<<w.out[2], w.out[3], w.out[4], w.out[5]>>}
          /\ Log(Step("t_write", id, args, [res |-> "ok", len |-> w.len, out |-> <<w.out>>,
                                            obs |-> TrObs(w.ts, TRUE)]))
     ELSE /\ UNCHANGED <<ep, aeadLog>>
          /\ Log(Step("t_write", id, args, [res |-> "err", causes |-> w.causes,
                                            kinds |-> KindsOfSet(w.causes), obs |-> TrObs(ts, TRUE)]))

TrRead(id, msg, outlen) ==
  /\ Mode(id) = "tr"
  /\ LET ts == St(id) r == TRead(ts, msg, outlen)
         args == [msg |-> msg, outlen |-> outlen] IN
     IF r.causes = {}
     THEN /\ ep' = [ep EXCEPT ![id].st = r.ts]
          /\ Log(Step("t_read", id, args, [res |-> "ok", len |-> r.plen, payload |-> r.payload,
                                           obs |-> TrObs(r.ts, TRUE)]))
     ELSE /\ UNCHANGED ep
          /\ Log(Step("t_read", id, args, [res |-> "err", causes |-> r.causes, noleak |-> LeakSet(msg),
                                           kinds |-> KindsOfSet(r.causes), obs |-> TrObs(ts, TRUE)]))
  /\ UNCHANGED aeadLog

TrRekey(id, which) ==       \* which in "out","in"
  /\ Mode(id) \in {"tr", "sl"}
  /\ LET ts == St(id)
         ts1 == IF which = "out" THEN RekeyOutgoing(ts) ELSE RekeyIncoming(ts) IN
     /\ ep' = [ep EXCEPT ![id].st = ts1]
     /\ Log(Step(IF which = "out" THEN "rekey_out" ELSE "rekey_in", id, <<>>,
                 [res |-> "ok", obs |-> TrObs(ts1, Mode(id) = "tr")]))
  /\ UNCHANGED aeadLog

TrRekeyManual(id, dir, key) ==   \* dir in "c1" (initiator key), "c2" (responder key)
  /\ Mode(id) \in {"tr", "sl"}
  /\ LET ts1 == RekeyManually(St(id), dir, key) IN
     /\ ep' = [ep EXCEPT ![id].st = ts1]
     /\ Log(Step("rekey_manual", id, [dir |-> dir, key |-> key],
                 [res |-> "ok", obs |-> TrObs(ts1, Mode(id) = "tr")]))
  /\ UNCHANGED aeadLog

TrSetRecvNonce(id, n) ==
  /\ Mode(id) = "tr"
  /\ LET ts1 == SetRecvNonce(St(id), n) IN
     /\ ep' = [ep EXCEPT ![id].st = ts1]
     /\ Log(Step("set_recv_nonce", id, [n |-> n], [res |-> "ok", obs |-> TrObs(ts1, TRUE)]))
  /\ UNCHANGED aeadLog

HookSetSendNonce(id, n) ==       \* cargo feature verif-hooks
  /\ Mode(id) = "tr"
  /\ LET ts1 == SetSendNonce(St(id), n) IN
     /\ ep' = [ep EXCEPT ![id].st = ts1]
     /\ Log(Step("hook_set_send_nonce", id, [n |-> n], [res |-> "ok", obs |-> TrObs(ts1, TRUE)]))
  /\ UNCHANGED aeadLog

(* ---- stateless transport ---------------------------------------------- *)
SlWrite(id, n, payload, buflen) ==
  /\ Mode(id) = "sl"
  /\ LET ts == St(id) w == SWrite(ts, n, payload, buflen)
         args == [n |-> n, payload |-> payload, buf |-> buflen] IN
     /\ IF w.causes = {}
        THEN /\ aeadLog' = aeadLog \cup {<<w.out[2], w.out[3], w.out[4], w.out[5]>>}
             /\ Log(Step("s_write", id, args, [res |-> "ok", len |-> w.len, out |-> <<w.out>>,
                                               obs |-> TrObs(ts, FALSE)]))
        ELSE /\ UNCHANGED aeadLog
             /\ Log(Step("s_write", id, args, [res |-> "err", causes |-> w.causes,
                                               kinds |-> KindsOfSet(w.causes), obs |-> TrObs(ts, FALSE)]))
     /\ UNCHANGED ep

SlRead(id, n, msg, outlen) ==
  /\ Mode(id) = "sl"
  /\ LET ts == St(id) r == SRead(ts, n, msg, outlen)
         args == [n |-> n, msg |-> msg, outlen |-> outlen] IN
     IF r.causes = {}
     THEN Log(Step("s_read", id, args, [res |-> "ok", len |-> r.plen, payload |-> r.payload,
                                        obs |-> TrObs(ts, FALSE)]))
     ELSE Log(Step("s_read", id, args, [res |-> "err", causes |-> r.causes, noleak |-> LeakSet(msg),
                                        kinds |-> KindsOfSet(r.causes), obs |-> TrObs(ts, FALSE)]))
  /\ UNCHANGED <<ep, aeadLog>>

(* ---- properties stated on the state ------------------------------------ *)
(* C06: no (key, nonce) pair encrypts two different inputs *)
NoNonceReuse ==
  \A a, b \in aeadLog : (a[1] = b[1] /\ a[2] = b[2]) => a = b
(* C09: the reserved nonce is never used to encrypt *)
ReservedUnused == \A a \in aeadLog : ~NIsMax(a[2])
=============================================================================
